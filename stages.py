"""Stage table: which builds / instrumentation each check runs in which tier."""

def S(name, build, tiers=("quick", "thorough"), args=(), **kw):
    d = {"name": name, "build": build, "tiers": list(tiers), "args": list(args)}
    d.update(kw)
    return d

STAGES = {
    "C09": [
        S("native", "native"),
        S("miri", "miri", tiers=("thorough",), args=["--n", "300"], timeout=3000),
    ],
    "C16": [
        S("native", "native"),
        S("miri", "miri", tiers=("thorough",), args=["--n", "300"], timeout=3000),
    ],
}

LEVELS = {
    "C09": "exploration",
    "C16": "exploration",
}

ASSUMPTIONS = {
    "C09": [
        "the in-memory destination models file semantics (sparse seek, zero fill) as std::fs::File does",
        "histories only grow the image by appending (as every writer in the crate does); rewriting already-flushed bytes other than directory slots is outside the stated operation set",
    ],
    "C16": [
        "the hand-written little-endian serializers in harness/src/props/c16.rs encode the minidump format definition correctly",
        "only the x86-64 Linux element types are exercised",
    ],
}

META = {
    "C09": {
        "technique": "reference file-model monitor compared with the real destination after every call, over random DirSection histories and hostile destinations (short writes, EINTR, injected failures); whole dumps into the same destinations",
        "level_text": "History level: random grow/emit/flush histories (<=40 ops) on the real DirSection with a content-only file model as oracle, checked after every call, on plain / short-writing / interrupting / failing destinations at 7 start offsets with arbitrary pre-existing content. Whole-dump level: live dumps into the same destinations compared with the returned image. Exploration, not exhaustive.",
        "level_note": "Trusts the 30-line file model and the in-memory destination. Only the Linux writer's use of DirSection is exercised live; src/mac is not run.",
    },
    "C16": {
        "technique": "reference-model monitor (byte-vector model in lock-step with the real buffer, compared after every operation) over random operation histories; Miri on a slice",
        "level_text": "Random operation histories on the real Buffer/MemoryWriter/MemoryArrayWriter/write_string_to_location, with an independent byte-vector model and hand-written serializers as oracle, compared after every single operation. Exploration: tens of thousands of histories (hundreds of thousands of operations) per run; not exhaustive.",
        "level_note": "Trusts the hand-written serializers of the 20 element types (sizes and field order from the minidump format definition). Histories are bounded to 60 operations; only x86-64 Linux types.",
    },
}
