"""Stage table: which builds / instrumentation each check runs in which tier."""

def S(name, build, tiers=("quick", "thorough"), args=(), **kw):
    d = {"name": name, "build": build, "tiers": list(tiers), "args": list(args)}
    d.update(kw)
    return d

STAGES = {
    "C02": [
        S("native", "native", timeout=3000),
        S("release-workers", "release", tiers=("thorough",), args=["--release-workers"], timeout=3000),
    ],
    "C03": [S("native", "native", timeout=2400)],
    "C08": [S("native", "native")],
    "C17": [S("native", "native")],
    "C18": [S("native", "native")],
    "C10": [S("native", "native")],
    "C11": [S("native", "native")],
    "C19": [S("native", "native")],
    "C04": [S("native", "native")],
    "C05": [S("native", "native"), S("miri", "miri", tiers=("thorough",), timeout=3000)],
    "C07": [S("native", "native")],
    "C20": [S("native", "native")],
    "C06": [S("native", "native")],
    "C12": [S("native", "native")],
    "C01": [S("native", "native")],
    "C13": [S("native", "native"), S("miri", "miri", tiers=("thorough",), args=["--n", "60"], timeout=3000)],
    "C14": [S("native", "native"), S("miri", "miri", tiers=("thorough",), args=["--n", "40"], timeout=3000)],
    "C15": [S("native", "native")],
    "C09": [
        S("native", "native"),
        S("miri", "miri", tiers=("thorough",), args=["--n", "40"], timeout=3000),
    ],
    "C16": [
        S("native", "native"),
        S("miri", "miri", tiers=("thorough",), args=["--n", "60"], timeout=3000),
    ],
}

# Sanitizer stages (thorough tier): the same monitors and workloads (quick size) re-run with the
# library built under AddressSanitizer, and under valgrind memcheck (uninitialised-value use in the
# unsafe read paths), for the properties whose code reaches unsafe code / FFI buffers.
for _p in ("C01", "C04", "C05", "C06", "C07", "C10", "C12", "C13", "C14", "C16", "C17", "C20"):
    STAGES[_p].append(S("asan", "asan", tiers=("thorough",), tier_as="quick", timeout=3000))
for _p in ("C01", "C04", "C05", "C07", "C17"):
    STAGES[_p].append(S("memcheck", "valgrind", tiers=("thorough",), tier_as="quick", timeout=3000))

LEVELS = {
    "C02": "exploration",
    "C03": "fault_enumeration",
    "C08": "exploration",
    "C17": "exploration",
    "C18": "exploration",
    "C10": "fault_enumeration",
    "C11": "fault_enumeration",
    "C19": "exploration",
    "C04": "exploration",
    "C05": "exploration",
    "C07": "exploration",
    "C20": "exploration",
    "C06": "exploration",
    "C12": "exploration",
    "C01": "exploration",
    "C13": "exploration",
    "C14": "exploration",
    "C15": "exploration",
    "C09": "exploration",
    "C16": "exploration",
}

ASSUMPTIONS = {
    "C02": [
        "bounded time is decided as: the worker uses less than 20 s of CPU (a normal dump uses ~10 ms) and returns within a 90 s wall-clock watchdog",
        "a thread name or mapping name that is not UTF-8 makes the dump return Err: allowed by the statement",
        "inputs the kernel never reports (malformed /proc text) are not fed",
        "one known finding in the dependency procfs-core is listed in KNOWN_FINDINGS.txt",
    ],
    "C03": [
        "signals carry unique ids (rt_tgsigqueueinfo + si_value); standard signals are sent at most once per (thread, signal number) at a time so coalescing cannot hide a loss",
        "job-control stop signals (SIGTSTP/SIGTTIN/SIGTTOU) are excluded: the kernel discards pending stop signals whenever SIGCONT is generated",
        "interleavings are placed at hook points and by a concurrent sender; kernel-internal orderings (e.g. a realtime signal dequeued between ptrace_attach's flag and its SIGSTOP) cannot be forced, only made likely: the racy placements are repeated under CPU contention (more busy threads than cores)",
        "progress is decided on heartbeat counters / TracerPid / State with a 20 s watchdog whose firing is inconclusive unless a thread is in a stop state",
    ],
    "C08": [
        "groups come from the checker's own /proc/<pid>/maps parse; ids and SONAMEs from harness/src/elf.rs applied to the bytes the harness wrote, to system library files and to the vDSO read from /proc/<pid>/mem",
        "a build id reachable only through the section table is expected only when the mapped file exists on disk and is itself the ELF image",
    ],
    "C17": [
        "PROT_NONE pages are readable through /proc/<pid>/mem and PTRACE_PEEKDATA (FOLL_FORCE): returning their true content is not fabrication; only unmapped addresses are unreadable to every strategy",
    ],
    "C18": [
        "the target is quiescent between the dump and the checker's own /proc reads; volatile status/cpuinfo lines (State, TracerPid, context switches, MHz, bogomips, memory counters) are excluded",
    ],
    "C10": [
        "crash points are the boundaries between the writer's own write/seek calls on a destination that accepts every write completely (a short-writing destination would add boundaries the writer does not control)",
        "the strict decoder of C01 is the judge of 'readable truncated minidump'",
    ],
    "C11": [
        "the quiescent sentinel threads are compared across dumps; running threads (main, sleepers) only by presence",
        "the exited-leader target is the natural source of unreadable auxv / unattachable thread in this sandbox (PR_SET_MM_* is refused)",
    ],
    "C19": [
        "the fresh writer dumps the same quiescent target immediately after the reused one; the running main thread is compared by presence only",
    ],
    "C04": [
        "sentinel threads load generated values into every register and then either spin in a 2-instruction loop or block in a raw pause syscall with all signals blocked, so the register file the kernel reports is known to the checker",
        "for threads blocked in a syscall RAX, RCX and R11 are not compared (clobbered by the syscall ABI)",
        "interleavings are placed at hook points (threads enumerated, before attach, after the i-th flush); not every interleaving is enumerated",
    ],
    "C05": [
        "the greg index table and the FXSAVE layout in harness/src/dump.rs and props/c05.rs are correct",
        "a dump that returns Err (e.g. blamed tid not in the process) is counted as no verdict",
    ],
    "C07": [
        "pattern regions are never written after setup; other descriptors are compared with /proc/<pid>/mem of quiescent threads only (the running main thread's stack is skipped)",
    ],
    "C20": [
        "only the quiescent sentinel threads are judged (the target's main thread runs)",
        "the soft error is required only in the two cases the statement names (address matches no mapping; crash context given and the crash thread does not reference)",
    ],
    "C06": [
        "the stack pointer of a listed thread is taken from that thread's own context in the same image (crash context for the blamed thread); C04/C05 judge those contexts",
        "mapping ends and permissions come from the checker's own read of /proc/<pid>/maps; bytes from /proc/<pid>/mem of the quiescent sentinel threads",
        "at exactly 256/257 pages of guard distance either outcome (found / empty) is accepted",
    ],
    "C12": [
        "generated layouts keep the biased and the system address range of a mapping equal (as on Linux without Android relocation packing)",
        "live level: a word may survive if it lies in a merged file group containing an executable line; it must survive if it lies in an executable line, the stack line or is a small integer",
    ],
    "C01": [
        "the strict decoder in harness/src/image.rs encodes the minidump layout rules correctly (struct sizes from the format definition)",
        "only Ok dumps are judged; Err/panic outcomes are counted as no-verdict here and judged by C02",
    ],
    "C13": [
        "well-formed input only: ascending, non-overlapping lines in the kernel's text format",
        "weakest reading of the three merge rules (see DESIGN.md C13)",
    ],
    "C14": [
        "harness/src/elf.rs (independent reader) implements the ELF specification for notes, section names and DT_SONAME",
        "comparison is made only where the independent reader deems the file well-formed and finds a value",
    ],
    "C15": [
        "ground truth is the checker's own read of /proc/<pid>/task/<tid>/comm while the target is quiescent",
        "a name differing only by trailing whitespace is accepted (the writer documents trimming)",
    ],
    "C09": [
        "the in-memory destination models file semantics (sparse seek, zero fill) as std::fs::File does",
        "histories only grow the image by appending (as every writer in the crate does); rewriting already-flushed bytes other than directory slots is outside the stated operation set",
    ],
    "C16": [
        "the hand-written little-endian serializers in harness/src/props/c16.rs encode the minidump format definition correctly",
        "only the x86-64 Linux element types are exercised",
    ],
}

META = {
    "C02": {
        "technique": "outcome classification of real dumps run in rlimit-ed, watchdogged worker subprocesses against hostile targets (linker-chain variants, corrupted mapped ELF files, hostile names, /dev/shm mappings under an inotify IN_OPEN monitor, target killed at hook points) and hostile options (crash registers at address-space extremes and mapping bounds, direct-auxv extremes); in-process panic capture on the pure entry points",
        "level_text": "Every live dump runs in `vh worker` under RLIMIT_CPU/RLIMIT_AS with a wall-clock watchdog; panic, abort, CPU-limit and timeout are violations, Ok/Err are fine. 600+ (quick) / 5000+ (thorough, debug and release profiles) worker runs over 13 hostile linker-chain variants, corrupted ELF files mapped under hostile names, direct-auxv extremes, crash registers drawn from extremes and every mapping bound +-1, 13 kill points; an inotify watch on the mapped /dev/shm files must stay silent. 50k+ in-process calls of the path/version derivation and get_stack_info with panic capture. Exploration.",
        "level_note": "Totality over generated inputs only; blocking hangs would show as watchdog timeouts (none observed).",
    },
    "C03": {
        "technique": "post-state monitor (TracerPid/State/heartbeats) + offline signal-conservation checker over uniquely numbered signals, under exhaustive destination-fault enumeration (error and panic/unwind at every call index) and hook-placed signal schedules incl. the re-injection path",
        "level_text": "Every destination call index of the fault-free dump gets an injected error and an injected panic (unwinding), under several option sets; two later-stage hard errors; uniquely numbered standard (<19, >19) and realtime signals are placed at 11 hook points x group-stop succeeded/failed and by a concurrent sender. After every dump all threads must be untraced immediately, none may stay in t/T, heartbeats must advance, and multiset(sent)=multiset(logged) per thread. The run must observe re-injections (>0) or it fails as a harness error.",
        "level_note": "Fault enumeration is complete per explored configuration; schedules are sampled. Targets killed mid-dump are exercised under C02.",
    },
    "C08": {
        "technique": "set-equality oracle between the module list and file-backed groups derived from the checker's own maps parse + independent ELF reader; caller-mapping containment cases; memory-vs-file differential for C14",
        "level_text": "Targets map up to 12 synthetic ELF images like a loader (ids in PT_NOTE / sections only / absent / all-zero, SONAME or not, deleted, archive offset, awkward names, same file twice) plus non-ELF files; 0..3 caller mappings containing / overlapping / disjoint. Every qualifying group must be listed exactly once with merged extent, exact id record and expected name; the entry-point module first; no overlaps; caller mappings verbatim and suppressing contained groups; nothing else listed. System libraries and the vDSO are judged the same way.",
        "level_note": "Version fields derived from .so.N names are not part of the statement and not judged.",
    },
    "C17": {
        "technique": "pattern oracle on each forced MemReader strategy with an exhaustive small grid at both mapping boundaries and sampled large ranges, on a target suspended through the real suspend_threads",
        "level_text": "For process_vm_readv, /proc/<pid>/mem and PTRACE_PEEKDATA separately: every (distance 0..16, length 1..40) at the mapping end and start (exhaustive), 4095..65536-byte ranges at all alignments mod 8, ranges crossing into unmapped memory by 1..4096 bytes or starting in the fence; read() and read_to_vec(). Readable ranges must come back exact; partly unreadable ranges as error or true strict prefix.",
        "level_note": "One pattern mapping per target, fence side alternates.",
    },
    "C18": {
        "technique": "byte-equality / field-equality oracles between each OS-information stream and the checker's own /proc reads, readlink+stat, cpuinfo parse, uname, and the target's own r_debug walk or a harness-built fake linker chain (auxv precedence cases)",
        "level_text": "Targets with hostile argv/environment (empty, all byte values, 100 KiB), up to 200 descriptors of all kinds, mappings of every permission combination incl. a shared file, real and fake linker chains; blamed thread main or worker; five direct-auxv variants. Raw streams must be byte copies; memory-info entries must match maps lines (range, protection table, private/shared); handles must equal readlink+st_mode per descriptor; system info must match cpuinfo/uname; the linker stream must equal the chain the effective auxv leads to.",
        "level_note": "CPU feature words beyond vendor/family/model/stepping are not in the statement.",
    },
    "C10": {
        "technique": "crash-point and I/O-fault enumeration on a recording destination: every post-call snapshot and every injected-error end state of a real dump is decoded as a truncated minidump by the strict decoder",
        "level_text": "For each explored dump the destination is snapshotted after EVERY write/seek call (all ~60-90 boundaries) and each snapshot must decode with header and full directory present and every published directory entry's stream and referenced blobs wholly present; then an I/O error (plain or after a partial store) is injected at EVERY call index and the aborted destination gets the same check. Exhaustive per dump; dumps (3 target shapes x option combinations incl. failing dso-debug) are sampled.",
        "level_note": "Destination accepts whole writes (boundaries are the writer's calls). src/mac shares DirSection but is not executed.",
    },
    "C11": {
        "technique": "fault enumeration: all 32 subsets of the five fail points x target shapes, per-thread name faults through the hook, natural failures (unmapped program headers, exited thread-group leader); JSON-path expectations + canonical-form diff against a no-fault dump of the same quiescent target",
        "level_text": "Exhaustive over the 32 fail-point subsets on each target shape: dump must be Ok, the soft-error stream must be a JSON list containing exactly the injected failures under their step keys, `[]` when nothing failed, an absent best-effort stream iff its error key, and every other stream canonical-equal to the reference dump. Natural failures are sampled.",
        "level_note": "Failures of the /proc and release-file copies cannot be induced individually in this sandbox beyond what the exited-leader target produces; they are covered by the generic absent-stream <=> error-key invariant.",
    },
    "C19": {
        "technique": "differential monitor: k-th image of a reused writer vs. the image of a fresh identically configured writer on the same quiescent target, in canonical form; strict decoder on every reused image",
        "level_text": "Histories of 2..5 requests on one writer under random option sets, with blamed thread (incl. a thread that is not listed), principal address, crash context or target changed between requests through the public fields; every request is paired with a fresh-writer dump and compared stream by stream modulo timestamp and RVAs. Exploration.",
        "level_note": "Equivalence is judged on decoded content, not bytes. Linux writer only.",
    },
    "C04": {
        "technique": "sentinel-register oracle (every register of every target thread is generated ground truth) + tid-set equality + vanished-thread placement through sync hooks + spinner-triple snapshot invariant with injected delays after each flush",
        "level_text": "Real dumps of targets with 1..64 threads whose sentinel threads hold generated values in all 16 GPRs, flags, segment selectors, XMM0-15, MXCSR, x87 CW and ST0-7; each captured context is compared field by field; tid sets must match exactly; exiter threads leave at hook-placed points and must be listed or reported; a spinner keeps one counter in a register, a stack slot and an application word whose captured values may differ by at most one step, with a delay injected after every flush index in turn. Exploration over sampled schedules.",
        "level_note": "Schedules are sampled at hook-defined points, not enumerated. Debug registers, FS/GS base and AVX state are not compared.",
    },
    "C05": {
        "technique": "differential monitor: own decoding table of the supplied ucontext/fpstate/siginfo vs. the context and exception record in the image; walking-one patterns attribute a dropped/swapped field exactly",
        "level_text": "Direct level: 20k (quick) / 200k (thorough) random and walking-one contexts through CrashContext::fill_cpu_context. Image level: real dumps with random crash contexts and blamed thread in {main, other thread, absent}; exception code/flags/address/thread id, identity of the exception context location with the blamed thread's entry, and both contexts are compared; without a context the record must say dump-requested with the captured instruction pointer and the captured (sentinel-verified) context.",
        "level_note": "Only x86-64. With an absent blamed tid the dump fails in a mandatory stream (no verdict).",
    },
    "C07": {
        "technique": "byte-equality oracle between every memory-list descriptor and address-derived fill patterns / /proc/<pid>/mem; multiset inclusion of requested regions; instruction-pointer window bound checks at mapping boundaries",
        "level_text": "Real dumps with 0..16 application regions of boundary lengths and alignments, adjacent to unmapped pages, crash instruction pointers at 9 positions relative to mapping boundaries or in a hole, 1..9 threads. Every descriptor's bytes are compared with the target; requested regions must appear exactly; every non-empty stack must be listed; the IP window must be exactly [max(start,ip-128), min(end,ip+128)). Exploration.",
        "level_note": "Regions that the checker itself cannot read are not judged.",
    },
    "C20": {
        "technique": "iff-oracle: the checker reads each thread's stack itself and decides reference/non-reference with half-open bounds, then compares with which stacks the image includes; boundary values start-1,start,end-1,end,end+1; misaligned and below-sp holders",
        "level_text": "Targets of 1..24 sentinel threads on zero-filled stacks each built as holder / non-holder of a pointer into the principal mapping (first, last, random aligned slot; misaligned; below sp; ip inside), principal address inside an anonymous r-x mapping, inside an ELF file group, in a hole, 0 or MAX, with and without crash context. Included <=> referenced is checked per thread; records/contexts must remain; the soft error must be present when required; the dump must succeed.",
        "level_note": "Exploration over generated holder layouts; not exhaustive over slot positions.",
    },
    "C06": {
        "technique": "image-vs-target oracle on real dumps of sentinel threads with shaped private stacks (chosen in-page sp offsets, guard/unmapped sp, thread-count and size-limit boundary classes)",
        "level_text": "Each listed thread's stack region is judged against its own stack pointer, the checker's /proc/<pid>/maps parse and /proc/<pid>/mem: containment, start page, exact extent to the mapping end when unshortened, byte equality from sp upward, the shortening bounds (position >= 20, never the crash thread, <= 2 KiB) and the guard-page search. Hundreds (quick) to tens of thousands (thorough, all 4096 in-page offsets) of stacks per run. Exploration.",
        "level_note": "Whether shortening happens is not asserted (only its bounds), but a run must observe >= 1 shortened stack and >= 1 guard case or it fails as a harness error. 32-bit guard arithmetic is not exercised.",
    },
    "C12": {
        "technique": "reference-classifier monitor (linear scan, no bitmap/cache) against the real sanitize_stack_copy on generated mapping layouts and stack contents; word-by-word judgement of sanitized live dumps",
        "level_text": "Direct: 200k (quick) / 3M (thorough) generated (layout, stack, sp offset, length) cases, tens of millions of words, compared byte-for-byte with a reference classifier; layouts straddle the 2 MiB pre-filter buckets and alias modulo 2^11, words probe every mapping bound +-1 and the last-hit cache. Live: sanitized dumps judged against target memory. Exploration.",
        "level_note": "Trusts the 30-line reference classifier. Only 64-bit words.",
    },
    "C01": {
        "technique": "strict independent minidump decoder + pairwise extent-overlap sweep on returned images of real dumps of generated hostile targets x option combinations; array-slot invariant hook at the source",
        "level_text": "Every returned image of hundreds (quick) / thousands (thorough) of real dumps of generated targets (1..64 threads, named/unnamed/unreadable-name mixes, anonymous and ELF file mappings, fds) under all on/off combinations of the 7 writer options goes through an intolerant decoder that checks header, directory, exact stream sizes, every RVA and pairwise non-overlap with exactly two sanctioned aliasings. Exploration; thorough enumerates all 128 option on/off combinations per thread-count class.",
        "level_note": "Trusts harness/src/image.rs. x86-64 Linux only; src/mac is not executed. Dumps that return Err are not judged here.",
    },
    "C13": {
        "technique": "partition-reconstruction oracle over the real aggregate function: exhaustive enumeration of short memory maps + random long ones",
        "level_text": "All sequences of <=3 (quick) / <=4 (thorough) lines over a 16-kind alphabet x adjacency x every vDSO address choice are fed to the real MappingInfo::aggregate (exhaustive within that bound), plus random maps of up to 400 lines; each output is checked for order, non-overlap, exact hull, one-container-per-line and a justification for every merge step.",
        "level_note": "Exhaustive only within the stated alphabet and length; inputs are well-formed kernel-format text. Merging is not demanded (the statement says 'only when'); C08 judges module extents.",
    },
    "C14": {
        "technique": "differential monitor against an independent ELF reader; structure-aware boundary-value mutation with panic capture (overflow checks on)",
        "level_text": "Totality: every (field x boundary value) single mutation and every truncation of two synthetic seeds (exhaustive), 100k+ random field pairs, random bytes, all with catch_unwind under the debug profile. Agreement: synthetic 32/64-bit images (construction = expected) and every ELF installed on the machine (thorough) vs. an independent reader; file vs. slice reader. Live memory-vs-file agreement is exercised by C08.",
        "level_note": "Trusts harness/src/elf.rs. Big-endian and exotic note alignments only as far as installed files contain them.",
    },
    "C15": {
        "technique": "set-equality oracle between the thread-name stream and the checker's own /proc comm reads, with per-thread name-read faults injected through the verif-hooks predicate; exhaustive fault subsets for small targets",
        "level_text": "For targets with <=6 threads every subset of unreadable names is enumerated (exhaustive); larger targets (to 32 threads) get random subsets. Names cover empty, whitespace, multi-byte UTF-8 at the 15-byte cut. Each dump's stream must equal exactly the set of (tid, comm) pairs of listed threads with readable names.",
        "level_note": "Name unreadability is injected at the read site (hook); natural unreadability (thread gone) is covered by C04/C11.",
    },
    "C09": {
        "technique": "reference file-model monitor compared with the real destination after every call, over random DirSection histories and hostile destinations (short writes, EINTR, injected failures); whole dumps into the same destinations",
        "level_text": "History level: random grow/emit/flush histories (<=40 ops) on the real DirSection with a content-only file model as oracle, checked after every call, on plain / short-writing / interrupting / failing destinations at 7 start offsets with arbitrary pre-existing content. Whole-dump level: live dumps into the same destinations compared with the returned image. Exploration, not exhaustive.",
        "level_note": "Trusts the 30-line file model and the in-memory destination. Only the Linux writer's use of DirSection is exercised live; src/mac is not run.",
    },
    "C16": {
        "technique": "reference-model monitor (byte-vector model in lock-step with the real buffer, compared after every operation) over random operation histories; Miri on a slice",
        "level_text": "Random operation histories on the real Buffer/MemoryWriter/MemoryArrayWriter/write_string_to_location, with an independent byte-vector model and hand-written serializers as oracle, compared after every single operation. Exploration: tens of thousands of histories (hundreds of thousands of operations) per run; not exhaustive.",
        "level_note": "Trusts the hand-written serializers of the 20 element types (sizes and field order from the minidump format definition). Histories are bounded to 60 operations; only x86-64 Linux types.",
    },
}
