"""Stage table: which builds / instrumentation each check runs in which tier."""

def S(name, build, tiers=("quick", "thorough"), args=(), **kw):
    d = {"name": name, "build": build, "tiers": list(tiers), "args": list(args)}
    d.update(kw)
    return d

STAGES = {
    "C16": [
        S("native", "native"),
        S("miri", "miri", tiers=("thorough",), args=["--n", "300"], timeout=3000),
    ],
}

LEVELS = {
    "C16": "exploration",
}

ASSUMPTIONS = {
    "C16": [
        "the hand-written little-endian serializers in harness/src/props/c16.rs encode the minidump format definition correctly",
        "only the x86-64 Linux element types are exercised",
    ],
}

META = {
    "C16": {
        "technique": "reference-model monitor (byte-vector model in lock-step with the real buffer, compared after every operation) over random operation histories; Miri on a slice",
        "level_text": "Random operation histories on the real Buffer/MemoryWriter/MemoryArrayWriter/write_string_to_location, with an independent byte-vector model and hand-written serializers as oracle, compared after every single operation. Exploration: tens of thousands of histories (hundreds of thousands of operations) per run; not exhaustive.",
        "level_note": "Trusts the hand-written serializers of the 20 element types (sizes and field order from the minidump format definition). Histories are bounded to 60 operations; only x86-64 Linux types.",
    },
}
