#!/usr/bin/env python3
"""Regenerates MANIFEST.json from stages.py (single source of truth for the check table)."""
import json, os, subprocess
ROOT = os.path.dirname(os.path.abspath(__file__))
import sys
sys.path.insert(0, ROOT)
from stages import STAGES, LEVELS, META

ALL = [json.loads(l)["id"] for l in open(os.path.join(ROOT, "properties.jsonl"))]
hook_commits = subprocess.run(["git", "-C", "/repo", "log", "--format=%H %s"], capture_output=True, text=True).stdout.splitlines()
hook_commits = [l.split()[0] for l in hook_commits if l.split(" ", 1)[1].startswith("verif-hooks")]

checks = []
for pid in ALL:
    if pid not in STAGES:
        continue
    m = META[pid]
    c = {
        "property_id": pid,
        "quick_cmd": f"./check {pid} quick",
        "thorough_cmd": f"./check {pid} thorough",
        "evidence_file": f"/verif/evidence/{pid}.json",
        "replay_cmd_template": f"./check {pid} --replay {{path}}",
        "engine": "vh",
        "level_claimed": {"category": LEVELS[pid], "text": m["level_text"], "design_ref": m.get("design_ref", f"DESIGN.md §5 {pid}")},
        "level_note": m["level_note"],
        "technique": m["technique"],
    }
    checks.append(c)

na = [{"property_id": pid, "reason": META.get(pid, {}).get("na_reason", "check not built yet (work in progress this round); nothing is claimed for it")}
      for pid in ALL if pid not in STAGES]

manifest = {
    "version": 1,
    "setup_cmd": "./check --setup",
    "hooks": {
        "guard": "cargo feature `verif-hooks` (minidump-writer/Cargo.toml [features])",
        "enable": "the harness crate /verif/harness depends on minidump-writer by path with features=[\"verif-hooks\"] (and failspot/enabled); `cargo build --offline` in /verif/harness rebuilds /repo's working tree",
        "baseline_off_cmd": "cd /repo && cargo test --workspace --no-fail-fast --offline",
        "source_commits": hook_commits,
        "add_only": True,
    },
    "engines": [
        {"name": "vh", "path": "/verif/harness", "serves_properties": [c["property_id"] for c in checks],
         "kind_free_text": "Rust harness (monitors, reference models, hostile target process `vtarget`, strict minidump decoder) driven by the python script /verif/check, which also runs the same workloads under Miri / ASan / valgrind memcheck and merges stage results into evidence files"},
    ],
    "checks": checks,
    "not_applicable": na,
    "notes": "Runtime monitoring only: every verdict is 'held on the executions observed'. KNOWN_FINDINGS.txt lists known findings and fixed defects. See DESIGN.md.",
}
json.dump(manifest, open(os.path.join(ROOT, "MANIFEST.json"), "w"), indent=1)
print("MANIFEST.json:", len(checks), "checks,", len(na), "not_applicable")
