//! Small helpers: parallel map over case indices, panic capture.
use std::sync::atomic::{AtomicU64, Ordering};
use std::sync::Mutex;

pub fn threads() -> usize {
    if cfg!(miri) {
        return 1;
    }
    std::env::var("VH_THREADS")
        .ok()
        .and_then(|s| s.parse().ok())
        .unwrap_or_else(|| std::thread::available_parallelism().map(|n| n.get()).unwrap_or(4))
}

/// Runs `f(i)` for i in 0..n on all cores; results are returned in index order.
pub fn par_map<T: Send, F: Fn(u64) -> T + Sync>(n: u64, f: F) -> Vec<T> {
    let next = AtomicU64::new(0);
    let out: Mutex<Vec<(u64, T)>> = Mutex::new(Vec::with_capacity(n as usize));
    let nthreads = std::cmp::min(threads() as u64, std::cmp::max(n, 1)) as usize;
    if nthreads <= 1 {
        return (0..n).map(f).collect();
    }
    std::thread::scope(|s| {
        for _ in 0..nthreads {
            s.spawn(|| {
                let mut local = Vec::new();
                loop {
                    let i = next.fetch_add(1, Ordering::Relaxed);
                    if i >= n {
                        break;
                    }
                    local.push((i, f(i)));
                    if local.len() >= 64 {
                        out.lock().unwrap().append(&mut local);
                    }
                }
                out.lock().unwrap().append(&mut local);
            });
        }
    });
    let mut v = out.into_inner().unwrap();
    v.sort_by_key(|(i, _)| *i);
    v.into_iter().map(|(_, t)| t).collect()
}

pub fn panic_message(p: &Box<dyn std::any::Any + Send>) -> String {
    p.downcast_ref::<String>()
        .cloned()
        .or_else(|| p.downcast_ref::<&str>().map(|s| s.to_string()))
        .unwrap_or_else(|| "<non-string panic payload>".into())
}

/// Silence the default panic hook (we catch and report panics ourselves) but remember the
/// location of the last panic per thread so that signatures can name the call site.
pub fn install_quiet_panic_hook() {
    std::panic::set_hook(Box::new(|info| {
        let loc = info
            .location()
            .map(|l| format!("{}:{}", l.file(), l.line()))
            .unwrap_or_default();
        if loc.contains("harness/src") || (loc.starts_with("src/") && !loc.starts_with("src/linux") && !loc.starts_with("src/mem_writer") && !loc.starts_with("src/dir_section")) {
            if !format!("{info}").contains("injected destination panic") {
                eprintln!("vh: HARNESS panic at {loc}: {info}");
            }
        }
        LAST_PANIC_LOC.with(|c| *c.borrow_mut() = loc);
    }));
}

thread_local! {
    pub static LAST_PANIC_LOC: std::cell::RefCell<String> = const { std::cell::RefCell::new(String::new()) };
}

pub fn last_panic_loc() -> String {
    LAST_PANIC_LOC.with(|c| c.borrow().clone())
}

/// Shorten an absolute source path to something stable for signatures.
pub fn short_loc(loc: &str) -> String {
    if let Some(i) = loc.find("/repo/") {
        return loc[i + 6..].to_string();
    }
    if let Some(i) = loc.find("/registry/src/") {
        let rest = &loc[i + 14..];
        if let Some(j) = rest.find('/') {
            return rest[j + 1..].to_string();
        }
    }
    loc.to_string()
}

// ---------------------------------------------------------------------------------------------
// "tracer storm": signals delivered to the DUMPING thread itself while it works
// ---------------------------------------------------------------------------------------------

/// A process that takes dumps may well have signal handlers of its own (timers, SIGCHLD, SIGUSR
/// based job control) installed without SA_RESTART. While a storm is active a helper thread keeps
/// sending SIGUSR2 (handler: count and return) to the thread that called `start`, so that its
/// blocking system calls - notably the `waitpid` after PTRACE_ATTACH - return EINTR now and then.
pub struct Storm {
    stop: std::sync::Arc<std::sync::atomic::AtomicBool>,
    handle: Option<std::thread::JoinHandle<u64>>,
}

static STORM_DELIVERED: std::sync::atomic::AtomicU64 = std::sync::atomic::AtomicU64::new(0);

extern "C" fn storm_handler(_sig: libc::c_int) {
    STORM_DELIVERED.fetch_add(1, std::sync::atomic::Ordering::Relaxed);
}

impl Storm {
    /// `gap_us`: pause between two signals in microseconds. The period must leave the interrupted
    /// thread room to make progress (a handler run plus a restarted system call take a few
    /// microseconds): a storm that is too dense is a livelock of the harness's own making.
    pub fn start(gap_us: u32) -> Storm {
        unsafe {
            let mut act: libc::sigaction = std::mem::zeroed();
            act.sa_sigaction = storm_handler as *const () as usize;
            act.sa_flags = 0; // deliberately no SA_RESTART
            libc::sigemptyset(&mut act.sa_mask);
            libc::sigaction(libc::SIGUSR2, &act, std::ptr::null_mut());
        }
        let me = unsafe { libc::pthread_self() } as usize;
        let stop = std::sync::Arc::new(std::sync::atomic::AtomicBool::new(false));
        let s2 = stop.clone();
        let handle = std::thread::spawn(move || {
            let mut sent = 0u64;
            while !s2.load(std::sync::atomic::Ordering::Relaxed) {
                unsafe {
                    libc::pthread_kill(me as libc::pthread_t, libc::SIGUSR2);
                }
                sent += 1;
                std::thread::sleep(std::time::Duration::from_micros(std::cmp::max(gap_us, 20) as u64));
            }
            sent
        });
        Storm { stop, handle: Some(handle) }
    }

    /// stops the storm; returns (signals sent, signals the handler has run for so far in this process)
    pub fn stop(mut self) -> (u64, u64) {
        self.stop.store(true, std::sync::atomic::Ordering::SeqCst);
        let sent = self.handle.take().and_then(|h| h.join().ok()).unwrap_or(0);
        (sent, STORM_DELIVERED.load(std::sync::atomic::Ordering::Relaxed))
    }
}

impl Drop for Storm {
    fn drop(&mut self) {
        self.stop.store(true, std::sync::atomic::Ordering::SeqCst);
        if let Some(h) = self.handle.take() {
            let _ = h.join();
        }
    }
}


/// A foreign tracer holding one thread of a target in its attach stop (a separate process, as
/// `strace -p <tid>` would be): nobody else can attach to that thread until this is dropped.
pub struct Holder {
    child: std::process::Child,
}

impl Holder {
    pub fn hold(tid: i32) -> Result<Holder, String> {
        use std::io::BufRead;
        let mut child = std::process::Command::new(crate::target::target_bin())
            .arg("hold")
            .arg(tid.to_string())
            .stdin(std::process::Stdio::piped())
            .stdout(std::process::Stdio::piped())
            .spawn()
            .map_err(|e| e.to_string())?;
        let mut line = String::new();
        let _ = std::io::BufReader::new(child.stdout.take().unwrap()).read_line(&mut line);
        if line.trim() != "held" {
            let _ = child.kill();
            let _ = child.wait();
            return Err(format!("foreign tracer could not attach: {}", line.trim()));
        }
        Ok(Holder { child })
    }
}

impl Drop for Holder {
    fn drop(&mut self) {
        drop(self.child.stdin.take());
        let _ = self.child.wait();
    }
}


// ------------------------------------------------------------------------------------------
// call watchdog: "the call returns" as an observation
// ------------------------------------------------------------------------------------------
//
// C02 and C14 state totality: a call into the crate RETURNS. A call that never returns cannot be
// judged by the thread that made it, so a watchdog thread looks at the CPU time the calling
// thread has spent inside ONE guarded call (its per-thread CPU clock: independent of machine load,
// unlike wall time). Beyond `HANG_CPU_SECS` the watchdog writes the stage record with the
// violation itself and ends the process.

pub const HANG_CPU_SECS: u64 = 30;

struct Watched {
    what: &'static str,
    clock: libc::clockid_t,
    cpu_at_entry: std::time::Duration,
    /// (address, length) of the input slice: borrowed by the guarded call, so alive while it is stuck
    input: Option<(usize, usize)>,
}

static WATCHED: std::sync::Mutex<Option<std::collections::HashMap<std::thread::ThreadId, Watched>>> = std::sync::Mutex::new(None);
static WATCHDOG_ON: std::sync::atomic::AtomicBool = std::sync::atomic::AtomicBool::new(false);

fn cpu_of(clock: libc::clockid_t) -> Option<std::time::Duration> {
    let mut ts = libc::timespec { tv_sec: 0, tv_nsec: 0 };
    if unsafe { libc::clock_gettime(clock, &mut ts) } != 0 {
        return None;
    }
    Some(std::time::Duration::new(ts.tv_sec as u64, ts.tv_nsec as u32))
}

pub struct WatchGuard(bool);

impl Drop for WatchGuard {
    fn drop(&mut self) {
        if self.0 {
            if let Some(m) = WATCHED.lock().unwrap_or_else(|e| e.into_inner()).as_mut() {
                m.remove(&std::thread::current().id());
            }
        }
    }
}

/// Guard one call into the crate under test (no-op unless the watchdog runs).
pub fn watch_call(what: &'static str, input: Option<&[u8]>) -> WatchGuard {
    if !WATCHDOG_ON.load(std::sync::atomic::Ordering::Relaxed) {
        return WatchGuard(false);
    }
    let mut clock: libc::clockid_t = 0;
    if unsafe { libc::pthread_getcpuclockid(libc::pthread_self(), &mut clock) } != 0 {
        return WatchGuard(false);
    }
    let Some(now) = cpu_of(clock) else { return WatchGuard(false) };
    let w = Watched { what, clock, cpu_at_entry: now, input: input.map(|i| (i.as_ptr() as usize, i.len())) };
    WATCHED.lock().unwrap_or_else(|e| e.into_inner()).get_or_insert_with(Default::default).insert(std::thread::current().id(), w);
    WatchGuard(true)
}

/// Start the watchdog thread (C02 / C14 stages). `out` is the stage record the driver reads.
pub fn start_call_watchdog(prop: &str, stage: &str, tier: &str, seed: u64, out: &str) {
    if cfg!(miri) || WATCHDOG_ON.swap(true, std::sync::atomic::Ordering::SeqCst) {
        return;
    }
    let (prop, stage, tier, out) = (prop.to_string(), stage.to_string(), tier.to_string(), out.to_string());
    let t0 = std::time::Instant::now();
    std::thread::spawn(move || loop {
        std::thread::sleep(std::time::Duration::from_millis(500));
        let hit = {
            let g = WATCHED.lock().unwrap_or_else(|e| e.into_inner());
            g.as_ref().and_then(|m| {
                m.values().find_map(|w| {
                    let spent = cpu_of(w.clock)?.checked_sub(w.cpu_at_entry)?;
                    (spent.as_secs() >= HANG_CPU_SECS).then(|| (w.what, spent, w.input.map(|(p, n)| unsafe { std::slice::from_raw_parts(p as *const u8, n) }.to_vec())))
                })
            })
        };
        let Some((what, spent, input)) = hit else { continue };
        let sig = format!("{prop} call did not return: {what} (more than {HANG_CPU_SECS} s of CPU time inside one call)");
        let mut detail = serde_json::json!({"cpu_seconds_inside_the_call": spent.as_secs_f64(), "seed": seed});
        if let Some(i) = input {
            let path = format!("{out}.hang-input.bin");
            if std::fs::write(&path, &i).is_ok() {
                detail["input_saved_as"] = serde_json::json!(path);
                detail["input_len"] = serde_json::json!(i.len());
            }
        }
        let rec = serde_json::json!({
            "property": prop, "stage": stage, "tier": tier, "seed": seed,
            "rule": "written by the call watchdog: the checking thread is stuck inside the crate under test",
            "evaluations": 1, "distinct_nontrivial": 1, "samples": [], "counters": {format!("violation[{sig}]"): 1},
            "violations": [{"sig": sig, "detail": detail}], "violations_total": 1, "inconclusive": [], "notes": [],
            "missing_observations": [], "wall_s": t0.elapsed().as_secs_f64(),
        });
        let _ = std::fs::write(&out, serde_json::to_string_pretty(&rec).unwrap());
        eprintln!("vh: {prop} stage={stage} tier={tier} seed={seed} evaluations=1 distinct=1 violations=1 inconclusive=0 wall={:.1}s (call watchdog)", t0.elapsed().as_secs_f64());
        std::process::exit(1);
    });
}
