//! The hostile target process. `vtarget <spec.json>` builds the requested process state
//! (regions at fixed addresses, sentinel threads with known registers, heartbeat/exiter threads,
//! open descriptors, names), publishes a manifest and then waits to be dumped.

use std::arch::asm;
use std::ffi::CString;
use std::sync::atomic::{AtomicU64, Ordering};
use vh::spec::*;

#[repr(C)]
struct RawRegs {
    gpr: [u64; 16],      // 0
    rflags: u64,         // 128
    ds: u64,             // 136
    es: u64,             // 144
    gs: u64,             // 152
    set_seg: u64,        // 160
    mxcsr: u32,          // 168
    fcw: u32,            // 172
    xmm: [[u8; 16]; 16], // 176
    st: [[u8; 16]; 8],   // 432
    entry: u64,          // 560
}

fn ctl(off: u64) -> &'static AtomicU64 {
    unsafe { &*((CTL_ADDR + off) as *const AtomicU64) }
}
fn slot(i: usize, field: u64) -> &'static AtomicU64 {
    unsafe { &*((slot_addr(i) + field) as *const AtomicU64) }
}

fn gettid() -> i32 {
    unsafe { libc::syscall(libc::SYS_gettid) as i32 }
}

unsafe fn enter_sentinel(r: *const RawRegs) -> ! {
    asm!(
        "fninit",
        "fld tbyte ptr [rax+432]",
        "fld tbyte ptr [rax+448]",
        "fld tbyte ptr [rax+464]",
        "fld tbyte ptr [rax+480]",
        "fld tbyte ptr [rax+496]",
        "fld tbyte ptr [rax+512]",
        "fld tbyte ptr [rax+528]",
        "fld tbyte ptr [rax+544]",
        "fldcw word ptr [rax+172]",
        "ldmxcsr dword ptr [rax+168]",
        "movdqu xmm0, [rax+176]",
        "movdqu xmm1, [rax+192]",
        "movdqu xmm2, [rax+208]",
        "movdqu xmm3, [rax+224]",
        "movdqu xmm4, [rax+240]",
        "movdqu xmm5, [rax+256]",
        "movdqu xmm6, [rax+272]",
        "movdqu xmm7, [rax+288]",
        "movdqu xmm8, [rax+304]",
        "movdqu xmm9, [rax+320]",
        "movdqu xmm10, [rax+336]",
        "movdqu xmm11, [rax+352]",
        "movdqu xmm12, [rax+368]",
        "movdqu xmm13, [rax+384]",
        "movdqu xmm14, [rax+400]",
        "movdqu xmm15, [rax+416]",
        "cmp qword ptr [rax+160], 0",
        "je 2f",
        "mov rbx, [rax+136]",
        "mov ds, bx",
        "mov rbx, [rax+144]",
        "mov es, bx",
        "mov rbx, [rax+152]",
        "mov gs, bx",
        "2:",
        "push qword ptr [rax+128]",
        "popfq",
        "mov rbx, [rax+8]",
        "mov rcx, [rax+16]",
        "mov rdx, [rax+24]",
        "mov rsi, [rax+32]",
        "mov rdi, [rax+40]",
        "mov rbp, [rax+48]",
        "mov rsp, [rax+56]",
        "mov r8, [rax+64]",
        "mov r9, [rax+72]",
        "mov r10, [rax+80]",
        "mov r11, [rax+88]",
        "mov r12, [rax+96]",
        "mov r13, [rax+104]",
        "mov r14, [rax+112]",
        "mov r15, [rax+120]",
        "mov rax, [rax]",
        "jmp qword ptr [r15+40]",
        in("rax") r,
        options(noreturn)
    );
}

fn set_name(name: &[u8]) {
    let mut buf = [0u8; 16];
    let n = std::cmp::min(15, name.len());
    buf[..n].copy_from_slice(&name[..n]);
    unsafe {
        libc::prctl(libc::PR_SET_NAME, buf.as_ptr() as libc::c_ulong, 0, 0, 0);
    }
}

fn block_all_signals() {
    unsafe {
        let mut set: libc::sigset_t = std::mem::zeroed();
        libc::sigfillset(&mut set);
        libc::pthread_sigmask(libc::SIG_SETMASK, &set, std::ptr::null_mut());
    }
}

static NSLOTS: AtomicU64 = AtomicU64::new(0);

extern "C" fn on_signal(sig: libc::c_int, info: *mut libc::siginfo_t, _uc: *mut libc::c_void) {
    let tid = gettid() as u64;
    let n = NSLOTS.load(Ordering::Relaxed) as usize;
    for i in 0..n {
        if slot(i, SLOT_TID).load(Ordering::Relaxed) == tid {
            let k = slot(i, SLOT_SIGCOUNT).fetch_add(1, Ordering::SeqCst);
            if k < SIGLOG_SIZE / 16 {
                let base = CTL_ADDR + SIGLOG_BASE + i as u64 * SIGLOG_SIZE + k * 16;
                unsafe {
                    let code = (*info).si_code as u32;
                    let val = *((info as *const u8).add(24) as *const u64);
                    *(base as *mut u32) = sig as u32;
                    *((base + 4) as *mut u32) = code;
                    *((base + 8) as *mut u64) = val;
                }
            }
            ctl(CTL_ACK_SIGS).fetch_add(1, Ordering::SeqCst);
            return;
        }
    }
}

const MAP_FIXED_NOREPLACE: libc::c_int = 0x100000;

fn prot_bits(p: u8) -> libc::c_int {
    let mut r = 0;
    if p & 4 != 0 {
        r |= libc::PROT_READ;
    }
    if p & 2 != 0 {
        r |= libc::PROT_WRITE;
    }
    if p & 1 != 0 {
        r |= libc::PROT_EXEC;
    }
    r
}

fn map_region(r: &Region, errors: &mut Vec<String>) {
    let needs_write = !matches!(r.fill, Fill::Keep) || !r.pokes.is_empty();
    let final_prot = prot_bits(r.prot);
    let map_prot = if needs_write { libc::PROT_READ | libc::PROT_WRITE } else { final_prot };
    let p = unsafe {
        match &r.kind {
            RegionKind::Anon => libc::mmap(r.addr as *mut _, r.len as usize, map_prot, libc::MAP_PRIVATE | libc::MAP_ANONYMOUS | MAP_FIXED_NOREPLACE, -1, 0),
            RegionKind::File { path, offset } => {
                let c = CString::new(path.as_bytes()).unwrap();
                let fd = libc::open(c.as_ptr(), libc::O_RDONLY);
                if fd < 0 {
                    errors.push(format!("open {path}: {}", std::io::Error::last_os_error()));
                    return;
                }
                let p = libc::mmap(r.addr as *mut _, r.len as usize, map_prot, libc::MAP_PRIVATE | MAP_FIXED_NOREPLACE, fd, *offset as libc::off_t);
                libc::close(fd);
                p
            }
            RegionKind::SharedFile { path, offset } => {
                let c = CString::new(path.as_bytes()).unwrap();
                let fd = libc::open(c.as_ptr(), if needs_write || r.prot & 2 != 0 { libc::O_RDWR } else { libc::O_RDONLY });
                if fd < 0 {
                    errors.push(format!("open {path}: {}", std::io::Error::last_os_error()));
                    return;
                }
                let p = libc::mmap(r.addr as *mut _, r.len as usize, map_prot, libc::MAP_SHARED | MAP_FIXED_NOREPLACE, fd, *offset as libc::off_t);
                libc::close(fd);
                p
            }
        }
    };
    if p == libc::MAP_FAILED || p as u64 != r.addr {
        errors.push(format!("mmap {:x}+{:x}: {}", r.addr, r.len, std::io::Error::last_os_error()));
        return;
    }
    unsafe {
        match r.fill {
            Fill::Keep => {}
            // (through libc: a region may legitimately sit at address 0, which Rust's own pointer
            // operations refuse to touch)
            Fill::Zero => {
                libc::memset(r.addr as *mut libc::c_void, 0, r.len as usize);
            }
            Fill::Pattern => {
                let buf: Vec<u8> = (r.addr..r.addr + r.len).map(vh::rng::pat).collect();
                libc::memcpy(r.addr as *mut libc::c_void, buf.as_ptr() as *const libc::c_void, buf.len());
            }
        }
        for (addr, bytes) in &r.pokes {
            if *addr >= r.addr && addr + bytes.len() as u64 <= r.addr + r.len {
                libc::memcpy(*addr as *mut libc::c_void, bytes.as_ptr() as *const libc::c_void, bytes.len());
            } else {
                errors.push(format!("poke {:x}+{} outside region {:x}+{:x}", addr, bytes.len(), r.addr, r.len));
            }
        }
        if needs_write && map_prot != final_prot && libc::mprotect(r.addr as *mut _, r.len as usize, final_prot) != 0 {
            errors.push(format!("mprotect {:x}: {}", r.addr, std::io::Error::last_os_error()));
        }
    }
    if r.unlink_after {
        if let RegionKind::File { path, .. } | RegionKind::SharedFile { path, .. } = &r.kind {
            let _ = std::fs::remove_file(path);
        }
    }
}

fn to_raw(regs: &RegBlock, entry: u64) -> Box<RawRegs> {
    let mut r: Box<RawRegs> = unsafe { Box::new(std::mem::zeroed()) };
    for i in 0..16 {
        r.gpr[i] = regs.gpr[i];
    }
    r.rflags = regs.rflags;
    r.ds = regs.ds as u64;
    r.es = regs.es as u64;
    r.gs = regs.gs as u64;
    r.set_seg = regs.set_segments as u64;
    r.mxcsr = regs.mxcsr;
    r.fcw = regs.fcw as u32;
    for i in 0..16 {
        r.xmm[i].copy_from_slice(&regs.xmm[i]);
    }
    for i in 0..8 {
        r.st[i][..10].copy_from_slice(&regs.st[i]);
    }
    r.entry = entry;
    r
}

extern "C" {
    static _DYNAMIC: [u64; 2];
}

#[repr(C)]
struct RDebugC {
    r_version: i32,
    r_map: u64,
    r_brk: u64,
    r_state: i32,
    r_ldbase: u64,
}
#[repr(C)]
struct LinkMapC {
    l_addr: u64,
    l_name: *const libc::c_char,
    l_ld: u64,
    l_next: *const LinkMapC,
    l_prev: *const LinkMapC,
}

fn fill_linker_info(m: &mut Manifest) {
    unsafe {
        let mut p = _DYNAMIC.as_ptr();
        m.dynamic_addr = p as u64;
        let mut rdebug: u64 = 0;
        loop {
            let tag = *p;
            let val = *p.add(1);
            if tag == 0 {
                break;
            }
            if tag == 21 {
                rdebug = val;
            }
            p = p.add(2);
        }
        m.r_debug_addr = rdebug;
        if rdebug != 0 {
            let rd = &*(rdebug as *const RDebugC);
            m.r_version = rd.r_version;
            m.r_brk = rd.r_brk;
            m.r_ldbase = rd.r_ldbase;
            let mut lm = rd.r_map as *const LinkMapC;
            while !lm.is_null() && m.link_map.len() < 1000 {
                let name = if (*lm).l_name.is_null() { String::new() } else { std::ffi::CStr::from_ptr((*lm).l_name).to_string_lossy().into_owned() };
                m.link_map.push(((*lm).l_addr, name, (*lm).l_ld));
                lm = (*lm).l_next;
            }
        }
        m.at_phdr = libc::getauxval(libc::AT_PHDR);
        m.at_phnum = libc::getauxval(libc::AT_PHNUM);
        m.at_entry = libc::getauxval(libc::AT_ENTRY);
        m.at_sysinfo_ehdr = libc::getauxval(libc::AT_SYSINFO_EHDR);
    }
}

fn open_fds(spec: &Spec, m: &mut Manifest) {
    for f in &spec.fds {
        unsafe {
            match f {
                FdSpec::File { path } | FdSpec::DeletedFile { path } => {
                    let c = CString::new(path.as_bytes()).unwrap();
                    let fd = libc::open(c.as_ptr(), libc::O_RDWR | libc::O_CREAT, 0o640);
                    // every descriptor's file gets its own permission bits (two descriptors may well
                    // share a link text, e.g. `<path> (deleted)` twice, and still be different files)
                    let modes = [0o640u32, 0o600, 0o644, 0o660, 0o604, 0o666, 0o200, 0o444];
                    libc::fchmod(fd, modes[m.fds.len() % modes.len()] as libc::mode_t);
                    m.fds.push(fd);
                    if matches!(f, FdSpec::DeletedFile { .. }) {
                        libc::unlink(c.as_ptr());
                    }
                }
                FdSpec::Dir { path } => {
                    let c = CString::new(path.as_bytes()).unwrap();
                    m.fds.push(libc::open(c.as_ptr(), libc::O_RDONLY | libc::O_DIRECTORY));
                }
                FdSpec::Pipe => {
                    let mut p = [0i32; 2];
                    libc::pipe(p.as_mut_ptr());
                    m.fds.push(p[0]);
                    m.fds.push(p[1]);
                }
                FdSpec::Socket => {
                    let mut p = [0i32; 2];
                    libc::socketpair(libc::AF_UNIX, libc::SOCK_STREAM, 0, p.as_mut_ptr());
                    m.fds.push(p[0]);
                    m.fds.push(p[1]);
                }
                FdSpec::EventFd => m.fds.push(libc::eventfd(0, 0)),
                FdSpec::DevNull => {
                    let c = CString::new("/dev/null").unwrap();
                    m.fds.push(libc::open(c.as_ptr(), libc::O_RDWR));
                }
                FdSpec::DeadProcDir => {
                    let pid = libc::fork();
                    if pid == 0 {
                        loop {
                            libc::pause();
                        }
                    } else if pid > 0 {
                        let c = CString::new(format!("/proc/{pid}/fd")).unwrap();
                        let fd = libc::open(c.as_ptr(), libc::O_RDONLY | libc::O_DIRECTORY);
                        libc::kill(pid, libc::SIGKILL);
                        let mut st = 0;
                        libc::waitpid(pid, &mut st, 0);
                        m.fds.push(fd);
                    }
                }
            }
        }
    }
}

fn main() {
    let args: Vec<std::ffi::OsString> = std::env::args_os().collect();
    if args.len() < 2 || args[1] == "idle" {
        // a trivial single-threaded process
        loop {
            std::thread::sleep(std::time::Duration::from_millis(100));
            if unsafe { libc::getppid() } == 1 {
                return;
            }
        }
    }
    if args[1] == "hold" {
        // a foreign tracer (what `strace -p <tid>` or a debugger is to the writer): attach to ONE
        // thread of some process, keep it in its attach stop, let go when standard input closes
        let tid: i32 = args.get(2).and_then(|a| a.to_str()).and_then(|a| a.parse().ok()).expect("tid");
        unsafe {
            if libc::ptrace(libc::PTRACE_ATTACH, tid, 0, 0) != 0 {
                println!("failed {}", std::io::Error::last_os_error());
                return;
            }
            let mut st = 0;
            libc::waitpid(tid, &mut st, libc::__WALL);
            println!("held");
            let mut buf = [0u8; 16];
            while libc::read(0, buf.as_mut_ptr() as *mut _, 16) > 0 {}
            libc::ptrace(libc::PTRACE_DETACH, tid, 0, 0);
        }
        return;
    }
    let orig_ppid = unsafe { libc::getppid() };
    let spec: Spec = serde_json::from_slice(&std::fs::read(&args[1]).expect("spec")).expect("spec json");
    let mut m = Manifest { pid: std::process::id() as i32, main_tid: gettid(), ..Default::default() };

    // control mapping (shared with the harness through the file <dir>/ctl)
    unsafe {
        let path = CString::new(format!("{}/ctl", spec.dir)).unwrap();
        let fd = libc::open(path.as_ptr(), libc::O_RDWR);
        assert!(fd >= 0, "control file");
        let p = libc::mmap(CTL_ADDR as *mut _, CTL_LEN as usize, libc::PROT_READ | libc::PROT_WRITE, libc::MAP_SHARED | MAP_FIXED_NOREPLACE, fd, 0);
        assert_eq!(p as u64, CTL_ADDR, "control mapping");
        libc::close(fd);
    }
    if spec.threads.len() + 1 > MAX_THREADS {
        m.errors.push("too many threads".into());
    }
    NSLOTS.store(spec.threads.len() as u64 + 1, Ordering::SeqCst);
    let main_slot = spec.threads.len();
    slot(main_slot, SLOT_TID).store(gettid() as u64, Ordering::SeqCst);

    for r in &spec.regions {
        map_region(r, &mut m.errors);
    }
    open_fds(&spec, &mut m);

    for sig in &spec.handle_signals {
        unsafe {
            let mut act: libc::sigaction = std::mem::zeroed();
            act.sa_sigaction = on_signal as usize;
            act.sa_flags = libc::SA_SIGINFO | libc::SA_RESTART;
            libc::sigemptyset(&mut act.sa_mask);
            libc::sigaction(*sig, &act, std::ptr::null_mut());
        }
    }

    for (i, t) in spec.threads.iter().enumerate() {
        if spec.wrap_ids_before_thread == Some(i) && i > 0 {
            // wait for the earlier threads' ids, then burn ids until a new thread gets a smaller one
            let t0 = std::time::Instant::now();
            while (0..i).any(|k| slot(k, SLOT_TID).load(Ordering::SeqCst) == 0) && t0.elapsed().as_secs() < 20 {
                std::thread::sleep(std::time::Duration::from_micros(200));
            }
            let lowest = (0..i).map(|k| slot(k, SLOT_TID).load(Ordering::SeqCst)).min().unwrap_or(0);
            let pid_max: u64 = std::fs::read_to_string("/proc/sys/kernel/pid_max").ok().and_then(|s| s.trim().parse().ok()).unwrap_or(u64::MAX);
            let mut wrapped = false;
            if pid_max <= 100_000 {
                for _ in 0..(pid_max + 1000) {
                    let last = std::thread::Builder::new().stack_size(64 * 1024).spawn(|| gettid() as u64).ok().and_then(|h| h.join().ok()).unwrap_or(u64::MAX);
                    // stop a little below the earlier threads' ids so that the next ids stay below them
                    if last + 300 < lowest && last > 300 {
                        wrapped = true;
                        break;
                    }
                    if t0.elapsed().as_secs() > 40 {
                        break;
                    }
                }
            }
            ctl(CTL_WRAPPED).store(if wrapped { 1 } else { 2 }, Ordering::SeqCst);
        }
        let t = t.clone();
        let b = std::thread::Builder::new().stack_size(256 * 1024);
        let r = b.spawn(move || {
            if let Some(n) = &t.name {
                set_name(n);
            }
            match &t.kind {
                ThreadKind::Sentinel { regs, entry } => {
                    block_all_signals();
                    let raw = Box::leak(to_raw(regs, *entry));
                    slot(i, SLOT_ENTRY).store(*entry, Ordering::SeqCst);
                    slot(i, SLOT_TID).store(gettid() as u64, Ordering::SeqCst);
                    unsafe { enter_sentinel(raw) }
                }
                ThreadKind::Heartbeat => {
                    slot(i, SLOT_TID).store(gettid() as u64, Ordering::SeqCst);
                    slot(i, SLOT_READY).store(1, Ordering::SeqCst);
                    loop {
                        slot(i, SLOT_HEARTBEAT).fetch_add(1, Ordering::SeqCst);
                        unsafe {
                            let ts = libc::timespec { tv_sec: 0, tv_nsec: 200_000 };
                            libc::nanosleep(&ts, std::ptr::null_mut());
                        }
                    }
                }
                ThreadKind::Exiter => {
                    slot(i, SLOT_TID).store(gettid() as u64, Ordering::SeqCst);
                    slot(i, SLOT_READY).store(1, Ordering::SeqCst);
                    loop {
                        if slot(i, SLOT_EXIT_REQ).load(Ordering::SeqCst) != 0 {
                            slot(i, SLOT_GONE).store(1, Ordering::SeqCst);
                            unsafe {
                                libc::syscall(libc::SYS_exit, 0);
                            }
                        }
                        slot(i, SLOT_HEARTBEAT).fetch_add(1, Ordering::SeqCst);
                        unsafe {
                            let ts = libc::timespec { tv_sec: 0, tv_nsec: 100_000 };
                            libc::nanosleep(&ts, std::ptr::null_mut());
                        }
                    }
                }
                ThreadKind::FdChurner => {
                    slot(i, SLOT_TID).store(gettid() as u64, Ordering::SeqCst);
                    let devnull = unsafe { libc::open(b"/dev/null\0".as_ptr() as *const libc::c_char, libc::O_RDWR) };
                    slot(i, SLOT_READY).store(1, Ordering::SeqCst);
                    let mut k: i32 = 0;
                    loop {
                        unsafe {
                            libc::dup2(devnull, 3000 + (k % 256));
                            libc::close(3000 + ((k + 255) % 256));
                        }
                        k = k.wrapping_add(1) & 0xffff;
                        slot(i, SLOT_HEARTBEAT).fetch_add(1, Ordering::SeqCst);
                        unsafe {
                            let ts = libc::timespec { tv_sec: 0, tv_nsec: 50_000 };
                            libc::nanosleep(&ts, std::ptr::null_mut());
                        }
                    }
                }
                ThreadKind::VforkWaiter { ms } => {
                    slot(i, SLOT_TID).store(gettid() as u64, Ordering::SeqCst);
                    slot(i, SLOT_READY).store(1, Ordering::SeqCst);
                    loop {
                        unsafe {
                            // fork semantics (own copy of the address space) + vfork blocking
                            let pid = libc::syscall(libc::SYS_clone, (libc::CLONE_VFORK | libc::SIGCHLD) as libc::c_ulong, 0usize, 0usize, 0usize, 0usize);
                            if pid == 0 {
                                let ts = libc::timespec { tv_sec: (ms / 1000) as libc::time_t, tv_nsec: ((ms % 1000) as i64 * 1_000_000) as _ };
                                libc::syscall(libc::SYS_nanosleep, &ts as *const libc::timespec, 0usize);
                                libc::syscall(libc::SYS_exit_group, 0);
                            } else if pid > 0 {
                                let mut st = 0;
                                libc::waitpid(pid as i32, &mut st, 0);
                            }
                        }
                        slot(i, SLOT_HEARTBEAT).fetch_add(1, Ordering::SeqCst);
                        std::thread::sleep(std::time::Duration::from_micros(300));
                    }
                }
                ThreadKind::PrivateFdTable => {
                    unsafe {
                        libc::unshare(libc::CLONE_FILES);
                        libc::close(0);
                        let c = CString::new("/dev/full").unwrap();
                        libc::open(c.as_ptr(), libc::O_RDONLY);
                        let c2 = CString::new("/dev/zero").unwrap();
                        libc::open(c2.as_ptr(), libc::O_RDONLY);
                    }
                    slot(i, SLOT_TID).store(gettid() as u64, Ordering::SeqCst);
                    slot(i, SLOT_READY).store(1, Ordering::SeqCst);
                    loop {
                        std::thread::sleep(std::time::Duration::from_secs(3600));
                    }
                }
                ThreadKind::Sleeper => {
                    slot(i, SLOT_TID).store(gettid() as u64, Ordering::SeqCst);
                    slot(i, SLOT_READY).store(1, Ordering::SeqCst);
                    loop {
                        std::thread::sleep(std::time::Duration::from_secs(3600));
                    }
                }
            }
        });
        if let Err(e) = r {
            m.errors.push(format!("spawn thread {i}: {e}"));
        }
    }
    // wait until every thread has published its tid
    let t0 = std::time::Instant::now();
    loop {
        let all = (0..spec.threads.len()).all(|i| slot(i, SLOT_TID).load(Ordering::SeqCst) != 0);
        if all || t0.elapsed().as_secs() > 20 {
            break;
        }
        std::thread::sleep(std::time::Duration::from_micros(200));
    }
    m.tids = (0..spec.threads.len()).map(|i| slot(i, SLOT_TID).load(Ordering::SeqCst) as i32).collect();
    fill_linker_info(&mut m);
    if let Some(n) = &spec.main_name {
        set_name(n);
    }
    let tmp = format!("{}/manifest.json.tmp", spec.dir);
    std::fs::write(&tmp, serde_json::to_vec(&m).unwrap()).expect("manifest");
    std::fs::rename(&tmp, format!("{}/manifest.json", spec.dir)).expect("manifest rename");
    ctl(CTL_READY).store(1, Ordering::SeqCst);

    if spec.leader_exit {
        unsafe {
            libc::syscall(libc::SYS_exit, 0);
        }
    }
    loop {
        slot(main_slot, SLOT_HEARTBEAT).fetch_add(1, Ordering::SeqCst);
        if let Some(ms) = spec.leader_vfork_ms {
            unsafe {
                let pid = libc::syscall(libc::SYS_clone, (libc::CLONE_VFORK | libc::SIGCHLD) as libc::c_ulong, 0usize, 0usize, 0usize, 0usize);
                if pid == 0 {
                    let ts = libc::timespec { tv_sec: (ms / 1000) as libc::time_t, tv_nsec: ((ms % 1000) as i64 * 1_000_000) as _ };
                    libc::syscall(libc::SYS_nanosleep, &ts as *const libc::timespec, 0usize);
                    libc::syscall(libc::SYS_exit_group, 0);
                } else if pid > 0 {
                    let mut st = 0;
                    libc::waitpid(pid as i32, &mut st, 0);
                }
            }
        } else {
            std::thread::sleep(std::time::Duration::from_millis(5));
        }
        if ctl(CTL_QUIT).load(Ordering::SeqCst) != 0 || unsafe { libc::getppid() } != orig_ppid {
            std::process::exit(0);
        }
        if ctl(CTL_MAP_LATE).load(Ordering::SeqCst) != 0 && ctl(CTL_LATE_DONE).load(Ordering::SeqCst) == 0 {
            let mut errors = Vec::new();
            for r in &spec.late_regions {
                map_region(r, &mut errors);
            }
            ctl(CTL_LATE_DONE).store(if errors.is_empty() { 1 } else { 2 }, Ordering::SeqCst);
        }
    }
}
