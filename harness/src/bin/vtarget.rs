fn main() {}
