//! `vh <PROPERTY> --tier quick|thorough --seed N --out FILE [--stage S] [--replay FILE] [opts]`
use vh::report::Report;

struct Args {
    prop: String,
    tier: String,
    seed: u64,
    out: String,
    stage: String,
    replay: Option<String>,
    n: Option<u64>,
    rest: Vec<String>,
}

fn parse() -> Args {
    let mut a = Args {
        prop: String::new(),
        tier: "quick".into(),
        seed: 1,
        out: "/dev/null".into(),
        stage: "native".into(),
        replay: None,
        n: None,
        rest: Vec::new(),
    };
    let mut it = std::env::args().skip(1);
    while let Some(x) = it.next() {
        match x.as_str() {
            "--tier" => a.tier = it.next().unwrap(),
            "--seed" => a.seed = it.next().unwrap().parse().unwrap(),
            "--out" => a.out = it.next().unwrap(),
            "--stage" => a.stage = it.next().unwrap(),
            "--replay" => a.replay = it.next(),
            "--n" => a.n = it.next().map(|s| s.parse().unwrap()),
            _ if a.prop.is_empty() => a.prop = x,
            _ => a.rest.push(x),
        }
    }
    a
}

fn main() {
    let a = parse();
    let thorough = a.tier == "thorough";
    let mut rep = Report::new(&a.prop, &a.stage, &a.tier, a.seed);
    let replay_seed: Option<u64> = a.replay.as_ref().and_then(|s| s.parse().ok());
    match a.prop.as_str() {
        "C16" => {
            let n = a.n.unwrap_or(if thorough { 400_000 } else { 30_000 });
            vh::props::c16::run(&mut rep, n, replay_seed);
        }
        "C09" => {
            let n = a.n.unwrap_or(if thorough { 300_000 } else { 20_000 });
            vh::props::c09::run(&mut rep, n, replay_seed);
        }
        other => {
            eprintln!("vh: unknown property {other}");
            std::process::exit(2);
        }
    }
    let _ = &a.rest;
    std::process::exit(rep.finish(&a.out));
}
