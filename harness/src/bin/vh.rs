//! `vh <PROPERTY> --tier quick|thorough --seed N --out FILE [--stage S] [--replay FILE] [opts]`
use vh::report::Report;

struct Args {
    prop: String,
    tier: String,
    seed: u64,
    out: String,
    stage: String,
    replay: Option<String>,
    n: Option<u64>,
    rest: Vec<String>,
}

fn parse() -> Args {
    let mut a = Args {
        prop: String::new(),
        tier: "quick".into(),
        seed: 1,
        out: "/dev/null".into(),
        stage: "native".into(),
        replay: None,
        n: None,
        rest: Vec::new(),
    };
    let mut it = std::env::args().skip(1);
    while let Some(x) = it.next() {
        match x.as_str() {
            "--tier" => a.tier = it.next().unwrap(),
            "--seed" => a.seed = it.next().unwrap().parse().unwrap(),
            "--out" => a.out = it.next().unwrap(),
            "--stage" => a.stage = it.next().unwrap(),
            "--replay" => a.replay = it.next(),
            "--n" => a.n = it.next().map(|s| s.parse().unwrap()),
            _ if a.prop.is_empty() => a.prop = x,
            _ => a.rest.push(x),
        }
    }
    a
}

fn main() {
    let a = parse();
    let thorough = a.tier == "thorough";
    let mut rep = Report::new(&a.prop, &a.stage, &a.tier, a.seed);
    let replay_seed: Option<u64> = a.replay.as_ref().and_then(|s| s.parse().ok());
    // C02 and C14 state that calls RETURN: a call that does not is observed by a watchdog (util.rs)
    if matches!(a.prop.as_str(), "C02" | "C14") {
        vh::util::start_call_watchdog(&a.prop, &a.stage, &a.tier, a.seed, &a.out);
    }
    match a.prop.as_str() {
        "C16" => {
            let n = a.n.unwrap_or(if thorough { 400_000 } else { 30_000 });
            vh::props::c16::run(&mut rep, n, replay_seed);
        }
        "C09" => {
            let n = a.n.unwrap_or(if thorough { 300_000 } else { 20_000 });
            vh::props::c09::run(&mut rep, n, replay_seed);
            if replay_seed.is_none() && !cfg!(miri) && !a.rest.iter().any(|x| x == "--no-live") {
                vh::props::c10::run_c09_live(&mut rep, thorough);
                rep.require("live_images_compared", 5);
            }
        }
        "C13" => {
            let n = a.n.unwrap_or(if thorough { 200_000 } else { 20_000 });
            let replay_text = a.replay.clone();
            vh::props::c13::run(&mut rep, thorough, n, replay_text.as_deref());
            if !cfg!(miri) && replay_text.is_none() {
                vh::props::c13::run_live(&mut rep, thorough);
            }
        }
        "C14" => {
            let n = a.n.unwrap_or(if thorough { 2_000_000 } else { 100_000 });
            vh::props::c14::run(&mut rep, thorough, n, a.replay.as_deref());
            if a.replay.is_none() && !cfg!(miri) {
                vh::props::c08::run_c14_live(&mut rep, thorough);
            }
        }
        "C01" => vh::props::c01::run_c01(&mut rep, thorough, a.replay.as_deref()),
        "C15" => vh::props::c01::run_c15(&mut rep, thorough),
        "C12" => vh::props::c12::run(&mut rep, thorough, false),
        "C06" => vh::props::c06::run(&mut rep, thorough),
        "C04" => vh::props::c04::run(&mut rep, thorough),
        "C05" => vh::props::c05::run(&mut rep, thorough),
        "C07" => vh::props::c07::run(&mut rep, thorough),
        "C20" => vh::props::c20::run(&mut rep, thorough),
        "C19" => vh::props::c19::run(&mut rep, thorough),
        "C11" => vh::props::c11::run(&mut rep, thorough),
        "dbgctx" => { dbg_ctx(); return; }
        "C10" => vh::props::c10::run(&mut rep, thorough),
        "C17" => vh::props::c17::run(&mut rep, thorough),
        "C18" => vh::props::c18::run(&mut rep, thorough),
        "C08" => vh::props::c08::run(&mut rep, thorough),
        "C03" => vh::props::c03::run(&mut rep, thorough),
        "C02" => vh::props::c02::run(&mut rep, thorough, a.rest.iter().any(|x| x == "--release-workers")),
        "worker" => {
            vh::props::c02::worker_main(&a.rest[0], &a.rest[1]);
            return;
        }
        "dbgac" => { dbg_ac(); return; }
        "dbgspawn" => { dbg_spawn(); return; }
        "dbgsettle" => { dbg_settle(); return; }
        "smoke" => {
            smoke();
            return;
        }
        other => {
            eprintln!("vh: unknown property {other}");
            std::process::exit(2);
        }
    }
    let _ = &a.rest;
    std::process::exit(rep.finish(&a.out));
}

fn smoke() {
    use vh::tspec::*;
    let mut rng = vh::rng::Rng::new(7);
    let mut b = Builder::new();
    b.sentinel(&mut rng, Mode::Spin, &StackShape::default(), Some(b"spin-one".to_vec()), None);
    b.sentinel(&mut rng, Mode::Pause, &StackShape::default(), Some(b"pause-one".to_vec()), None);
    b.sentinel(&mut rng, Mode::Spinner3, &StackShape::default(), None, None);
    b.thread(vh::spec::ThreadKind::Heartbeat, Some(b"hb".to_vec()));
    let t = vh::target::Target::spawn(b.spec.clone(), &b.opts).expect("spawn");
    println!("pid {} tids {:?}", t.pid, t.manifest.tids);
    let o = vh::dump::DumpOpts::new(t.pid, t.pid);
    let (out, dest) = vh::dump::dump(&o);
    match out {
        vh::dump::Outcome::Ok(img) => {
            println!("ok {} bytes, dest equal: {}", img.len(), img == dest);
            let im = vh::image::decode(&img);
            println!("errors: {:?}", im.errors);
            for th in im.threads.as_ref().unwrap() {
                let c = th.ctx.as_ref().unwrap();
                println!("tid {} rsp {:#x} rip {:#x} stack {:#x}+{}", th.tid, c.rsp(), c.rip, th.stack_start, th.stack_size);
            }
            println!("names {:?}", im.names);
            println!("soft {:?}", im.soft_errors());
            println!("modules {:?}", im.modules.as_ref().unwrap().iter().map(|m| (m.name.clone(), m.base, m.size)).collect::<Vec<_>>());
        }
        other => println!("{other:?}"),
    }
}

#[allow(dead_code)]
fn dbg_ctx() {
    use vh::tspec::*;
    let mut rng = vh::rng::Rng::new(7);
    let mut b = Builder::new();
    b.sentinel(&mut rng, Mode::Pause, &StackShape::default(), None, None);
    let t = vh::target::Target::spawn(b.spec.clone(), &b.opts).expect("spawn");
    let mut prev: Option<vh::image::Context> = None;
    for k in 0..4 {
        let mut o = vh::dump::DumpOpts::new(t.pid, t.pid);
        if k == 2 { o.failspots.push("SuspendThreads".into()); }
        let (out, _) = vh::dump::dump(&o);
        if let vh::dump::Outcome::Ok(img) = out {
            let im = vh::image::decode(&img);
            let th = im.threads.as_ref().unwrap().iter().find(|x| x.tid as i32 == t.manifest.tids[0]).unwrap().clone();
            let c = th.ctx.unwrap();
            if let Some(p) = &prev {
                let diffs: Vec<usize> = (0..1232).filter(|&i| p.raw[i] != c.raw[i]).collect();
                println!("dump {k}: differing byte offsets vs previous: {:?}", diffs);
            }
            println!("dump {k}: rax {:#x} rcx {:#x} r11 {:#x} rip {:#x} eflags {:#x}", c.rax(), c.rcx(), c.r(11), c.rip, c.eflags);
            prev = Some(c);
        }
    }
}

#[allow(dead_code)]
fn dbg_ac() {
    use vh::tspec::*;
    let mut rng = vh::rng::Rng::new(11);
    for round in 0..40 {
        let mut b = Builder::new();
        for k in 0..8 {
            let mode = if k % 3 == 0 { Mode::Spin } else { Mode::Pause };
            let pages = 2;
            let sp = 4096 + rng.below(4000) as i64;
            let i = b.sentinel(&mut rng, mode, &StackShape { pages, sp_offset: sp, ..Default::default() }, None, None);
            if let vh::spec::ThreadKind::Sentinel { regs, .. } = &mut b.spec.threads[i].kind {
                regs.rflags |= 0x4_0000;
            }
            b.sentinels[i].regs.rflags |= 0x4_0000;
        }
        match vh::target::Target::spawn(b.spec.clone(), &b.opts) {
            Ok(t) => {
                let o = vh::dump::DumpOpts::new(t.pid, t.pid);
                let (out, _) = vh::dump::dump(&o);
                let ok = matches!(out, vh::dump::Outcome::Ok(_));
                std::thread::sleep(std::time::Duration::from_millis(5));
                let mut t = t;
                println!("round {round}: spawned, dump ok={ok}, alive after={}", t.alive());
            }
            Err(e) => println!("round {round}: {e}"),
        }
    }
}

#[allow(dead_code)]
fn dbg_spawn() {
    use vh::scen::*;
    let mut rng = vh::rng::Rng::new(5);
    let mut fails = 0;
    for round in 0..200 {
        let cfg = TargetCfg { sentinels: 12, max_spinners: 3, heartbeats: 10, sleepers: 10, names: true, regions: 4, elf_files: 2, fds: 7, stack_pages_max: 6, ..Default::default() };
        match build_target(&mut rng, &cfg) {
            Ok(_) => {}
            Err(e) => {
                fails += 1;
                println!("round {round}: {e}");
            }
        }
    }
    println!("fails {fails}");
}


/// stress: failed dump -> settle -> dump; how often is a pause sentinel NOT captured inside its
/// system call (rip just after the syscall instruction)?
fn dbg_settle() {
    use vh::tspec::*;
    let iters: usize = std::env::var("ITERS").ok().and_then(|s| s.parse().ok()).unwrap_or(500);
    let mut rng = vh::rng::Rng::new(11);
    let mut b = Builder::new();
    for _ in 0..4 {
        b.sentinel(&mut rng, Mode::Pause, &StackShape::default(), None, None);
    }
    let t = vh::target::Target::spawn(b.spec.clone(), &b.opts).expect("spawn");
    let mut odd = 0;
    for it in 0..iters {
        let o = vh::dump::DumpOpts::new(t.pid, t.pid);
        let (mut w, _g) = vh::dump::configure(&o);
        let mut df = vh::dest::Dest::plain();
        df.set_fault(3 + it % 60, vh::dest::Fault::Error);
        let _ = vh::dump::dump_with(&mut w, &mut df);
        // what do the threads look like right now / when settle says "settled"?
        let st0: Vec<String> = t.manifest.tids.iter().map(|tid| format!("{:?}/{}", t.thread_status(*tid).map(|s| s.0), std::fs::read_to_string(format!("/proc/{}/task/{}/syscall", t.pid, tid)).unwrap_or_default().split(' ').next().unwrap_or("").trim().to_string())).collect();
        t.settle();
        let st1: Vec<String> = t.manifest.tids.iter().map(|tid| format!("{:?}/{}", t.thread_status(*tid).map(|s| s.0), std::fs::read_to_string(format!("/proc/{}/task/{}/syscall", t.pid, tid)).unwrap_or_default().split(' ').next().unwrap_or("").trim().to_string())).collect();
        let mut d = vh::dest::Dest::plain();
        let out = vh::dump::dump_with(&mut w, &mut d);
        if let vh::dump::Outcome::Ok(img) = out {
            let im = vh::image::decode(&img);
            for s in &b.sentinels {
                let tid = t.manifest.tids[s.index];
                if let Some(th) = im.threads.as_ref().and_then(|v| v.iter().find(|th| th.tid as i32 == tid)) {
                    if let Some(c) = &th.ctx {
                        if c.rip != s.stub_addr + vh::spec::STUB_PAUSE_AFTER_SYSCALL {
                            odd += 1;
                            println!("iter {it}: tid {tid} rip {:#x} (stub {:#x}) before-settle {:?} after-settle {:?}", c.rip, s.stub_addr, st0, st1);
                        }
                    }
                }
            }
        }
    }
    println!("iters {iters} odd {odd}");
}
