//! Generated scenarios: a hostile target (with its ground truth) plus writer option sets.

use crate::dump::{CrashSpec, DumpOpts, UserMap, REG_CSGSFS, REG_EFL, REG_RIP, REG_RSP};
use crate::elf::{self, ElfSpec};
use crate::rng::Rng;
use crate::spec::*;
use crate::target::Target;
use crate::tspec::*;

#[derive(Clone, Debug)]
pub struct FileTruth {
    pub path: String,
    pub spec: ElfSpec,
    pub base: u64,
    pub size: u64,
    pub deleted: bool,
    pub elf: bool,
    /// bytes of junk in front of the ELF image inside the file (archive-style mapping)
    pub pad: u64,
    /// the ELF image bytes (kept by the harness: the file may be deleted)
    pub image: Vec<u8>,
}

pub struct Scenario {
    pub b: Builder,
    pub target: Target,
    /// readable pattern regions (addr, len) usable for app memory
    pub pattern_regions: Vec<(u64, u64)>,
    /// executable pattern regions (addr, len)
    pub exec_regions: Vec<(u64, u64)>,
    pub files: Vec<FileTruth>,
    pub holes: Vec<u64>,
}

#[derive(Clone, Debug)]
pub struct TargetCfg {
    pub sentinels: usize,
    pub max_spinners: usize,
    pub heartbeats: usize,
    pub sleepers: usize,
    pub exiters: usize,
    pub names: bool,
    pub regions: usize,
    pub elf_files: usize,
    pub fds: usize,
    pub stack_pages_max: u64,
    pub null_sp_threads: usize,
    /// an additional readable pattern region of this many pages (0: none)
    pub big_region_pages: u64,
}

impl Default for TargetCfg {
    fn default() -> Self {
        TargetCfg { sentinels: 3, max_spinners: 2, heartbeats: 0, sleepers: 0, exiters: 0, names: true, regions: 3, elf_files: 0, fds: 0, stack_pages_max: 8, null_sp_threads: 0, big_region_pages: 0 }
    }
}

pub fn random_name(rng: &mut Rng) -> Vec<u8> {
    match rng.below(13) {
        0 => Vec::new(),
        // control characters inside the name: the kernel stores whatever PR_SET_NAME was given
        11 => rng.pick(&[&b"ab\ncd"[..], b"\nworker", b"l1\nl2\n\nl4", b"x\n", b"a\tb\rc", b"\n\n", b"end\n \n"]).to_vec(),
        12 => rng.pick(&[&b"a\0hidden"[..], b"\x01\x02\x7f", b"q\x1b[31m", b"fifteen-chars-x", b"\xc3\xa9\n\xc3\xa9", b"DOM\\user", b"c:\\tmp\\x", b"lit\\nnl", b"\\", b"tab\\there"]).to_vec(),
        1 => b"  ".to_vec(),
        2 => "thr\u{e9}\u{e4}d-\u{4e16}".as_bytes().to_vec(),
        3 => b"fifteen-chars-xx".to_vec(),
        4 => b"trail  ".to_vec(),
        6 => "\u{1F980}crab".as_bytes().to_vec(),
        7 => "ab\u{1D54F}\u{1F980}".as_bytes().to_vec(),
        5 => " lead".as_bytes().to_vec(),
        _ => {
            let n = rng.range(1, 15) as usize;
            (0..n).map(|_| b"abcdefghijklmnopqrstuvwxyz0123456789-_:. "[rng.usize_below(41)]).collect()
        }
    }
}

/// Write a synthetic ELF file into `dir` and return the spec/regions that map it like a loader.
pub fn add_elf_file(b: &mut Builder, rng: &mut Rng, dir: &str, name: &str, spec: ElfSpec, delete: bool, files: &mut Vec<FileTruth>) {
    add_elf_file_ex(b, rng, dir, name, spec, delete, 0, files)
}

/// `pad` > 0: the ELF image sits at file offset `pad` (page multiple) inside a larger file, as
/// when a library is mapped straight out of an archive.
#[allow(clippy::too_many_arguments)]
pub fn add_elf_file_ex(b: &mut Builder, rng: &mut Rng, dir: &str, name: &str, spec: ElfSpec, delete: bool, pad: u64, files: &mut Vec<FileTruth>) {
    let built = elf::build(&spec);
    let path = format!("{dir}/{name}");
    let mut content = vec![0x5au8; pad as usize];
    content.extend_from_slice(&built.bytes);
    std::fs::write(&path, &content).expect("write elf");
    let total_pages: u64 = built.loads.iter().map(|l| l.1 / PAGE).sum();
    let base = b.alloc(total_pages, 8 + rng.below(4));
    let mut at = base;
    let n = built.loads.len();
    for (i, (off, len, prot)) in built.loads.iter().enumerate() {
        b.add_region(Region {
            addr: at,
            len: *len,
            prot: *prot,
            kind: RegionKind::File { path: path.clone(), offset: *off + pad },
            fill: Fill::Keep,
            pokes: Vec::new(),
            unlink_after: delete && i == n - 1,
        });
        at += len;
    }
    files.push(FileTruth { path, spec, base, size: at - base, deleted: delete, elf: true, pad, image: built.bytes });
}

pub fn build_target(rng: &mut Rng, cfg: &TargetCfg) -> Result<Scenario, String> {
    build_target_with(rng, cfg, |_, _| {})
}

/// Like `build_target`; `extra` may add to the spec (late regions, more threads) just before the
/// target is spawned.
pub fn build_target_with<F: FnOnce(&mut Builder, &mut Rng)>(rng: &mut Rng, cfg: &TargetCfg, extra: F) -> Result<Scenario, String> {
    let mut b = Builder::new();
    b.spec.dir = crate::target::new_dir("sc");
    let dir = b.spec.dir.clone();
    let mut pattern_regions = Vec::new();
    let mut exec_regions = Vec::new();
    let mut files = Vec::new();
    let mut holes = Vec::new();
    // regions
    for _ in 0..cfg.regions {
        let pages = *rng.pick(&[1u64, 1, 2, 3, 8, 17]);
        let prot = *rng.pick(&[4u8, 6, 5, 4, 6, 0, 7]);
        let gap = *rng.pick(&[1u64, 1, 4, 0]);
        let before = b.cursor();
        let i = b.anon(pages, gap, prot, Fill::Pattern);
        let r = &b.spec.regions[i];
        if gap > 0 {
            holes.push(before);
        }
        if prot & 4 != 0 {
            pattern_regions.push((r.addr, r.len));
        }
        if prot & 1 != 0 && prot & 4 != 0 {
            exec_regions.push((r.addr, r.len));
        }
    }
    // an executable private FILE mapping whose next page (same file) is inaccessible: the writer's
    // merged mapping spans both, so a window around an address near the end of the first page
    // reaches into memory that cannot be read
    {
        let path = format!("{dir}/exec-with-noaccess-tail.bin");
        std::fs::write(&path, vec![0xc3u8; 2 * PAGE as usize]).expect("write exec file");
        let a = b.alloc(2, 6);
        b.add_region(Region { addr: a, len: PAGE, prot: 5, kind: RegionKind::File { path: path.clone(), offset: 0 }, fill: Fill::Keep, pokes: Vec::new(), unlink_after: false });
        b.add_region(Region { addr: a + PAGE, len: PAGE, prot: 0, kind: RegionKind::File { path, offset: PAGE }, fill: Fill::Keep, pokes: Vec::new(), unlink_after: false });
        exec_regions.push((a, PAGE));
    }
    if cfg.big_region_pages > 0 {
        let i = b.anon(cfg.big_region_pages, 3, 6, Fill::Pattern);
        let r = &b.spec.regions[i];
        pattern_regions.push((r.addr, r.len));
    }
    for k in 0..cfg.elf_files {
        let spec = ElfSpec::random(rng);
        let name = match rng.below(5) {
            0 => format!("lib syn {k}.so"),
            1 => format!("libsyn{k}.so.{}.{}", rng.below(9), rng.below(20)),
            2 => format!("libsyn\u{e9}{k}.so"),
            _ => format!("libsyn{k}.so"),
        };
        let del = rng.chance(1, 5);
        add_elf_file(&mut b, rng, &dir, &name, spec, del, &mut files);
    }
    // threads
    let mut spinners = 0;
    for _ in 0..cfg.sentinels {
        let mode = if spinners < cfg.max_spinners && rng.chance(3, 10) {
            spinners += 1;
            if rng.chance(1, 3) {
                Mode::Spinner3
            } else {
                Mode::Spin
            }
        } else {
            Mode::Pause
        };
        let pages = rng.range(1, cfg.stack_pages_max);
        let sp_page = rng.below(pages);
        let any = rng.below(4096);
        let sp_off = (sp_page * PAGE + *rng.pick(&[0u64, 8, 512, 2040, 2048, 2056, 4088, any])) as i64;
        // now and then the stack is a private file mapping with an inaccessible tail of the same
        // file above it (the writer's merged mapping then reaches over unreadable memory)
        let tail = if rng.chance(1, 6) { 2 } else { 0 };
        let shape = StackShape { pages, sp_offset: sp_off, noaccess_file_tail_pages: tail, low: any % 4 == 0, ..Default::default() };
        let name = if cfg.names { Some(random_name(rng)) } else { None };
        b.sentinel(rng, mode, &shape, name, None);
    }
    for _ in 0..cfg.null_sp_threads {
        b.sentinel(rng, Mode::Pause, &StackShape { pages: 0, sp_offset: 0, ..Default::default() }, Some(b"nullsp".to_vec()), None);
    }
    for _ in 0..cfg.heartbeats {
        let name = if cfg.names { Some(random_name(rng)) } else { None };
        b.thread(ThreadKind::Heartbeat, name);
    }
    for _ in 0..cfg.sleepers {
        let name = if cfg.names { Some(random_name(rng)) } else { None };
        b.thread(ThreadKind::Sleeper, name);
    }
    for _ in 0..cfg.exiters {
        b.thread(ThreadKind::Exiter, Some(b"exiter".to_vec()));
    }
    for k in 0..cfg.fds {
        b.spec.fds.push(match rng.below(8) {
            7 => FdSpec::DeadProcDir,
            0 => FdSpec::File { path: format!("{dir}/fd file {k}") },
            1 => FdSpec::DeletedFile { path: format!("{dir}/fd-del-{k}") },
            2 => FdSpec::Dir { path: dir.clone() },
            3 => FdSpec::Pipe,
            4 => FdSpec::Socket,
            5 => FdSpec::EventFd,
            _ => FdSpec::DevNull,
        });
    }
    extra(&mut b, rng);
    let target = Target::spawn(b.spec.clone(), &b.opts)?;
    Ok(Scenario { b, target, pattern_regions, exec_regions, files, holes })
}

#[derive(Clone, Debug, Default)]
pub struct OptKnobs {
    pub crash: bool,
    pub limit: u8, // 0 none, 1 tiny, 2 around estimate, 3 huge
    pub sanitize: bool,
    pub skip: bool,
    pub app: bool,
    pub user: bool,
    pub auxv: u8, // 0 none, 1 true values, 2 partially zero
}

impl OptKnobs {
    pub fn from_bits(bits: u32, rng: &mut Rng) -> Self {
        OptKnobs {
            crash: bits & 1 != 0,
            limit: if bits & 2 != 0 { 1 + rng.below(3) as u8 } else { 0 },
            sanitize: bits & 4 != 0,
            skip: bits & 8 != 0,
            app: bits & 16 != 0,
            user: bits & 32 != 0,
            auxv: if bits & 64 != 0 { 1 + rng.below(2) as u8 } else { 0 },
        }
    }
}

pub fn default_fpstate(rng: &mut Rng) -> Vec<u8> {
    rng.bytes(512)
}

/// gregs for a crash context: everything random except RSP/RIP/CSGSFS chosen by the caller
pub fn crash_gregs(rng: &mut Rng, rsp: u64, rip: u64) -> Vec<i64> {
    let mut g: Vec<i64> = (0..23).map(|_| rng.next() as i64).collect();
    g[REG_RSP] = rsp as i64;
    g[REG_RIP] = rip as i64;
    g[REG_EFL] = (rng.next() & 0xffff_ffff) as i64;
    g[REG_CSGSFS] = rng.next() as i64;
    g
}

pub fn random_opts(rng: &mut Rng, sc: &Scenario, k: &OptKnobs) -> DumpOpts {
    let t = &sc.target;
    let mut o = DumpOpts::new(t.pid, t.pid);
    let sentinels = &sc.b.sentinels;
    // blamed thread
    let blamed_idx = if !sentinels.is_empty() && rng.chance(1, 2) { Some(rng.usize_below(sentinels.len())) } else { None };
    if let Some(i) = blamed_idx {
        o.blamed = t.manifest.tids[sentinels[i].index];
    }
    if k.crash {
        let (rsp, rip) = match blamed_idx {
            Some(i) if rng.chance(3, 4) => {
                let s = &sentinels[i];
                let rip = if !sc.exec_regions.is_empty() && rng.chance(1, 2) {
                    let (a, l) = *rng.pick(&sc.exec_regions);
                    *rng.pick(&[a, a + 1, a + 127, a + 128, a + 129, a + l / 2, a + l - 129, a + l - 128, a + l - 1])
                } else {
                    s.stub_addr + 1
                };
                (s.regs.gpr[RSP], rip)
            }
            _ => {
                // a stack pointer inside some readable pattern region (or the thread's own)
                let rsp = if !sc.pattern_regions.is_empty() {
                    let (a, l) = *rng.pick(&sc.pattern_regions);
                    a + rng.below(l)
                } else {
                    // (never the main thread's stack: that thread runs, and what is captured there
                    // changes from one dump to the next)
                    sentinels.iter().find(|s| s.stack_len > 0).map(|s| s.regs.gpr[RSP]).unwrap_or(0x1000)
                };
                let rip = if !sc.exec_regions.is_empty() {
                    let (a, l) = *rng.pick(&sc.exec_regions);
                    a + rng.below(l)
                } else {
                    rng.next() >> 17
                };
                (rsp, rip)
            }
        };
        o.crash = Some(CrashSpec { gregs: crash_gregs(rng, rsp, rip), fpstate: default_fpstate(rng), signo: 11, code: 1, addr: rng.next(), tid: o.blamed, noise_seed: rng.next() | 1 });
    }
    let nthreads = t.manifest.tids.len() as u64 + 1;
    o.size_limit = match k.limit {
        0 => None,
        1 => Some(rng.below(2)),
        2 => {
            // the estimate is position + 8 KiB * n + 64 KiB; position at the time of the
            // thread list is ~ 32 + 18*12 + 4 + 48*n
            let pos = 32 + 18 * 12 + 4 + 48 * nthreads;
            let est = pos + 8192 * nthreads + 65536;
            Some((est as i64 + rng.range(0, 4) as i64 - 2) as u64)
        }
        _ => Some(1 << 40),
    };
    o.sanitize = k.sanitize;
    if k.skip {
        o.skip_unreferenced = true;
        o.principal = match rng.below(5) {
            0 => None,
            1 if !sc.holes.is_empty() => Some(*rng.pick(&sc.holes)),
            2 => Some(*rng.pick(&[0u64, u64::MAX, 1])),
            _ if !sc.exec_regions.is_empty() => {
                let (a, l) = *rng.pick(&sc.exec_regions);
                Some(a + rng.below(l))
            }
            _ => sc.b.stubs_region.map(|i| sc.b.spec.regions[i].addr + 5),
        };
    }
    if k.app && !sc.pattern_regions.is_empty() {
        for _ in 0..rng.range(1, 8) {
            let (a, l) = *rng.pick(&sc.pattern_regions);
            let len = std::cmp::min(l, *rng.pick(&[1u64, 2, 7, 8, 9, 4095, 4096, 4097, 65536]));
            let start = a + rng.below(l - len + 1);
            o.app_memory.push((start, len));
        }
    }
    if k.user {
        for u in 0..rng.range(1, 3) {
            let (start, size) = if !sc.files.is_empty() && rng.chance(1, 2) {
                let f = rng.pick(&sc.files);
                match rng.below(3) {
                    0 => (f.base, f.size),                    // exactly containing
                    1 => (f.base - PAGE, f.size + 2 * PAGE),  // strictly containing
                    _ => (f.base + PAGE, f.size),             // partially overlapping
                }
            } else {
                (0x2800_0000_0000 + u * 0x10_0000, *rng.pick(&[4096u64, 0x5000, 0x10_0000]))
            };
            o.user_mappings.push(UserMap { start, size, offset: 0, name: format!("/user/provided/lib{u}.so"), id: if rng.chance(1, 4) { Vec::new() } else { rng.bytes(20) } });
        }
    }
    let m = &t.manifest;
    o.direct_auxv = match k.auxv {
        0 => None,
        1 => Some([m.at_phnum, m.at_phdr, m.at_sysinfo_ehdr, m.at_entry]),
        _ => {
            let mut a = [m.at_phnum, m.at_phdr, m.at_sysinfo_ehdr, m.at_entry];
            for x in a.iter_mut() {
                if rng.chance(1, 2) {
                    *x = 0;
                }
            }
            Some(a)
        }
    };
    o
}
