pub mod c16;
pub mod c09;
