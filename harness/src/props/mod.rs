pub mod c16;
pub mod c09;
pub mod c13;
pub mod c14;
pub mod c01;
pub mod c12;
pub mod c06;
