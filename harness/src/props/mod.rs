pub mod c16;
