//! C01 — a successful dump is a structurally sound minidump (strict decoder + extent sweep on
//! the returned image, over generated targets x option combinations).
//! C15 — thread names are attached to the right threads (same machinery, names oracle).

use crate::dump::{self, DumpOpts, Outcome};
use crate::image;
use crate::report::Report;
use crate::rng::{fnv, Rng};
use crate::scen::{self, OptKnobs, Scenario, TargetCfg};
use serde_json::json;

pub fn comm_of(pid: i32, tid: i32) -> Option<Vec<u8>> {
    let mut v = std::fs::read(format!("/proc/{pid}/task/{tid}/comm")).ok()?;
    if v.last() == Some(&b'\n') {
        v.pop();
    }
    Some(v)
}

/// names oracle: returns error messages
pub fn check_names(im: &image::Image, pid: i32, name_faults: &[i32]) -> Vec<(String, String)> {
    let mut errs = Vec::new();
    let (Some(threads), Some(names)) = (&im.threads, &im.names) else {
        errs.push(("names-stream-missing".into(), "thread list or thread names stream missing".into()));
        return errs;
    };
    let mut expected: Vec<(u32, String, String)> = Vec::new(); // tid, raw, trimmed
    for t in threads {
        if name_faults.contains(&(t.tid as i32)) {
            continue;
        }
        let Some(raw) = comm_of(pid, t.tid as i32) else { continue };
        let Ok(s) = String::from_utf8(raw) else { continue };
        expected.push((t.tid, s.clone(), s.trim_end().to_string()));
    }
    if names.len() != expected.len() {
        errs.push(("names-count".into(), format!("thread-name stream has {} entries but {} listed threads have a readable name", names.len(), expected.len())));
    }
    for (tid, raw, trimmed) in &expected {
        let hits: Vec<&(u32, Option<String>)> = names.iter().filter(|(t, _)| t == tid).collect();
        if hits.len() != 1 {
            errs.push(("names-entry-missing-or-duplicated".into(), format!("thread {tid} (name {trimmed:?}) has {} entries in the thread-name stream", hits.len())));
            continue;
        }
        match &hits[0].1 {
            Some(n) if n == raw || n == trimmed => {}
            other => errs.push(("names-wrong-name".into(), format!("thread {tid}: stream says {other:?}, kernel says {raw:?}"))),
        }
    }
    for (tid, _) in names {
        if !expected.iter().any(|(t, _, _)| t == tid) {
            errs.push(("names-unexpected-entry".into(), format!("thread-name entry for tid {tid}, which is not a listed thread with a readable name")));
        }
    }
    errs
}

pub struct CaseResult {
    pub desc: u64,
    pub ok_dump: bool,
    pub errors: Vec<(String, String)>,
    pub detail: serde_json::Value,
    pub objects: u64,
    pub oor: u64,
    pub outcome: String,
}

pub fn one_dump(sc: &Scenario, o: &DumpOpts, check_structure: bool, check_name_pairs: bool) -> CaseResult {
    let _g = dump::DUMP_LOCK.lock().unwrap_or_else(|e| e.into_inner());
    minidump_writer::verif_hooks::reset_array_index_counters();
    // every third option set is dumped into a destination that is already LARGER than the dump
    // will be (a pre-sized or recycled dump file), positioned at a non-zero offset: the image a
    // reader finds there must be structurally sound as well
    let presized = fnv(o.describe().as_bytes()) % 3 == 0;
    let start: usize = if presized { 4096 } else { 0 };
    let mut d = if presized { crate::dest::Dest::new(vec![0xEE; 6 << 20], start as u64, crate::dest::Mode::Plain, 1) } else { crate::dest::Dest::plain() };
    let view = d.clone();
    let out = dump::dump_into(o, &mut d);
    let _dest = view.data();
    let (_, oor) = minidump_writer::verif_hooks::array_index_counters();
    drop(_g);
    let desc = fnv(format!("{}/{}/{}", o.describe(), sc.target.manifest.tids.len(), sc.b.spec.regions.len()).as_bytes());
    let detail = json!({"threads": sc.target.manifest.tids.len() + 1, "regions": sc.b.spec.regions.len(), "fds": sc.b.spec.fds.len(), "opts": o.describe(), "name_faults": o.name_faults.len()});
    match out {
        Outcome::Ok(img) => {
            let im = image::decode(&img);
            let mut errors = Vec::new();
            if check_structure {
                errors.extend(im.errors.iter().cloned());
                if presized {
                    if let Some(slice) = _dest.get(start..start + img.len()) {
                        let dim = image::decode(slice);
                        errors.extend(dim.errors.iter().map(|(k, m)| (format!("{k} (image found in a pre-sized destination)"), m.clone())));
                    } else {
                        errors.push(("destination-too-short".into(), "the pre-sized destination is shorter than the returned image".into()));
                    }
                }
                if im.stream_count != 18 || im.dir.len() != 18 {
                    errors.push(("stream-count".into(), format!("stream_count {} entries {}", im.stream_count, im.dir.len())));
                }
                if oor > 0 {
                    errors.push(("array-slot-out-of-range".into(), format!("{oor} array slot writes outside the reserved array (hook at the source)")));
                }
            }
            if check_name_pairs {
                errors.extend(check_names(&im, o.pid, &o.name_faults));
            }
            CaseResult { desc, ok_dump: true, errors, detail, objects: im.extents.len() as u64, oor, outcome: "ok".into() }
        }
        Outcome::Err(e) => CaseResult { desc, ok_dump: false, errors: Vec::new(), detail, objects: 0, oor, outcome: format!("err: {}", e.chars().take(120).collect::<String>()) },
        Outcome::Panic { message, location } => CaseResult { desc, ok_dump: false, errors: Vec::new(), detail, objects: 0, oor, outcome: format!("panic at {location}: {message}") },
    }
}

fn thread_counts(thorough: bool) -> Vec<usize> {
    if thorough {
        vec![1, 2, 3, 5, 19, 20, 21, 40, 64]
    } else {
        vec![1, 2, 5, 20, 21, 33]
    }
}

pub fn run_c01(rep: &mut Report, thorough: bool, replay: Option<&str>) {
    crate::util::install_quiet_panic_hook();
    rep.rule = "generated targets (1..64 threads: sentinel/heartbeat/sleeper mix, random named/unnamed/unreadable-name subsets, random anonymous + synthetic-ELF file mappings, 0..40 fds) x option sets (all 2^7 on/off combinations of crash ctx, size limit, sanitize, skip-unreferenced, app memory, user mappings, direct auxv in thorough; a covering sample in quick). Oracle: strict decoder + pairwise extent sweep on the RETURNED image. distinct = hash(option set, thread count, region count); non-trivial = dump returned Ok and >= 30 extents were checked".into();
    let _ = replay;
    let mut rng = Rng::new(rep.seed.wrapping_mul(77_003));
    let combos: Vec<u32> = if thorough { (0..128).collect() } else { vec![0, 127, 1, 2, 4, 8, 16, 32, 64, 3, 5, 9, 17, 33, 65, 6, 10, 18, 34, 66, 12, 20, 36, 68, 24, 40, 72, 48, 80, 96, 85, 42] };
    let rounds = if thorough { 24 } else { 2 };
    let mut ci = 0usize;
    for round in 0..rounds {
        for &n in &thread_counts(thorough) {
            let sentinels = std::cmp::min(n.saturating_sub(1), 12);
            let rest = n.saturating_sub(1) - sentinels;
            let cfg = TargetCfg {
                sentinels,
                max_spinners: 3,
                heartbeats: rest / 2,
                sleepers: rest - rest / 2,
                exiters: 0,
                names: rng.chance(3, 4),
                regions: rng.range(0, 8) as usize,
                elf_files: rng.range(0, 3) as usize,
                fds: *rng.pick(&[0usize, 1, 7, 40]),
                stack_pages_max: 6,
                null_sp_threads: 0,
                big_region_pages: 0,
            };
            let sc = match scen::build_target(&mut rng, &cfg) {
                Ok(s) => s,
                Err(e) => {
                    rep.inconclusive(format!("target with {n} threads did not start: {e}"));
                    continue;
                }
            };
            // option sets for this target: the next slice of the combinations
            let per_target = if thorough { 32 } else { 16 };
            for j in 0..per_target {
                let bits = if thorough { combos[(round * 32 + j) % combos.len()] } else { combos[ci % combos.len()] };
                ci += 1;
                let knobs = OptKnobs::from_bits(bits, &mut rng);
                let mut o = scen::random_opts(&mut rng, &sc, &knobs);
                // every target: crash contexts whose instruction pointer sits 1 / 16 / 127 / 128 bytes
                // before the end of the readable part of a file mapping with an inaccessible tail
                if let Some(c) = o.crash.as_mut() {
                    if j % 4 == 1 {
                        if let Some(r) = sc.b.spec.regions.iter().find(|r| r.prot == 5 && matches!(&r.kind, crate::spec::RegionKind::File { path, .. } if path.ends_with("exec-with-noaccess-tail.bin"))) {
                            let back = [1u64, 16, 127, 128][(j / 4) % 4];
                            c.gregs[crate::dump::REG_RIP] = (r.addr + r.len - back) as i64;
                            rep.count("crash_ip_next_to_inaccessible_tail", 1);
                        }
                    }
                }
                // unreadable names for a random subset of threads
                if rng.chance(1, 2) {
                    let mut tids = sc.target.manifest.tids.clone();
                    tids.push(sc.target.pid);
                    for t in tids {
                        if rng.chance(1, 3) {
                            o.name_faults.push(t);
                        }
                    }
                }
                let r = one_dump(&sc, &o, true, false);
                rep.case(r.desc, r.ok_dump && r.objects >= 30);
                rep.count("extents_checked", r.objects);
                rep.count(if r.ok_dump { "dumps_ok" } else { "dumps_no_verdict(err/panic)" }, 1);
                if !r.ok_dump && rep.counter("no_verdict_samples") < 5 {
                    rep.count("no_verdict_samples", 1);
                    rep.note(&format!("no verdict: {} [{}]", r.outcome, o.describe()));
                }
                if rep.samples.len() < 4 && r.ok_dump {
                    rep.sample(r.detail.clone());
                }
                let mut kinds: Vec<String> = r.errors.iter().map(|e| e.0.clone()).collect();
                kinds.sort();
                kinds.dedup();
                for k in kinds {
                    let msgs: Vec<&String> = r.errors.iter().filter(|e| e.0 == k).map(|e| &e.1).take(3).collect();
                    rep.violation(&format!("C01 structure {k}"), json!({"case": r.detail, "messages": msgs, "opts": serde_json::to_value(&o).unwrap(), "target_threads": n}));
                }
            }
        }
    }
    rep.require("dumps_ok", 10);
    rep.require("extents_checked", 1000);
}

pub fn run_c15(rep: &mut Report, thorough: bool) {
    crate::util::install_quiet_panic_hook();
    rep.rule = "targets with 1..32 threads carrying generated names (length 0..15, multi-byte UTF-8 at the cut, whitespace-only, trailing/leading spaces, non-UTF-8 bytes); EVERY subset of unreadable names for targets with <= 6 threads (exhaustive, via the thread-name fault hook), random subsets above. Oracle: exact set equality between the stream's (tid, name) pairs and the checker's own read of /proc/<pid>/task/<tid>/comm for the listed threads. distinct = hash(thread count, fault subset, names); non-trivial = Ok dump with >= 1 name compared".into();
    let mut rng = Rng::new(rep.seed.wrapping_mul(99_991));
    let counts: Vec<usize> = if thorough { vec![1, 2, 3, 4, 5, 6, 7, 9, 16, 24, 32] } else { vec![1, 2, 3, 4, 6, 12, 32] };
    let mut exhaustive_done = 0u64;
    for &n in &counts {
        let reps = if thorough { 12 } else { 1 };
        for _ in 0..reps {
            let sentinels = std::cmp::min(n - 1, 6) - (n >= 4 && n - 1 <= 6) as usize;
            // (from 4 threads on, one of them runs with a null stack pointer: the writer leaves it out,
            // and the threads created after it must keep their own names)
            let nullsp = (n >= 4) as usize;
            let cfg = TargetCfg { sentinels, max_spinners: 1, heartbeats: 0, sleepers: n - 1 - sentinels - nullsp, exiters: 0, names: true, regions: 1, elf_files: 0, fds: 0, stack_pages_max: 2, null_sp_threads: nullsp, big_region_pages: 0 };
            let mut sc = match scen::build_target(&mut rng, &cfg) {
                Ok(s) => s,
                Err(e) => {
                    rep.inconclusive(format!("target with {n} threads did not start: {e}"));
                    continue;
                }
            };
            sc.target.keep_dir = false;
            let mut tids = vec![sc.target.pid];
            tids.extend(sc.target.manifest.tids.iter().copied());
            let subsets: Vec<u64> = if n <= 6 {
                exhaustive_done += 1;
                (0..(1u64 << n)).collect()
            } else {
                let mut v = vec![0u64, (1u64 << n) - 1, 1, 1u64 << (n - 1)];
                for _ in 0..(if thorough { 60 } else { 12 }) {
                    v.push(rng.next() & ((1u64 << n) - 1));
                }
                v
            };
            for mask in subsets {
                let mut o = DumpOpts::new(sc.target.pid, sc.target.pid);
                for (i, t) in tids.iter().enumerate() {
                    if mask & (1 << i) != 0 {
                        o.name_faults.push(*t);
                    }
                }
                let r = one_dump(&sc, &o, false, true);
                let named = tids.len() - o.name_faults.len();
                rep.case(fnv(format!("{n}/{mask}/{:?}", sc.b.spec.threads.iter().map(|t| t.name.clone()).collect::<Vec<_>>()).as_bytes()), r.ok_dump && named >= 1);
                rep.count("names_compared", named as u64);
                rep.count(if r.ok_dump { "dumps_ok" } else { "dumps_no_verdict(err/panic)" }, 1);
                if rep.samples.len() < 4 && mask != 0 {
                    rep.sample(json!({"threads": n, "unreadable_mask": format!("{mask:b}"), "names": sc.b.spec.threads.iter().map(|t| t.name.as_ref().map(|n| String::from_utf8_lossy(n).into_owned())).collect::<Vec<_>>()}));
                }
                if !r.ok_dump {
                    rep.note(&format!("no verdict: {}", r.outcome));
                }
                let mut kinds: Vec<String> = r.errors.iter().map(|e| e.0.clone()).collect();
                kinds.sort();
                kinds.dedup();
                for k in kinds {
                    let msgs: Vec<&String> = r.errors.iter().filter(|e| e.0 == k).map(|e| &e.1).take(3).collect();
                    let hole = if mask != 0 && mask != (1u64 << n) - 1 { "some-unreadable" } else if mask == 0 { "all-readable" } else { "none-readable" };
                    rep.violation(&format!("C15 names {k} ({hole})"), json!({"threads": n, "unreadable_mask": format!("{mask:b}"), "messages": msgs}));
                }
            }
        }
    }
    rep.count("targets_with_exhaustive_subsets", exhaustive_done);
    rep.require("names_compared", 50);
    rep.require("dumps_ok", 20);
}
