//! C18 — OS and process information streams mirror the target.

use crate::dump::{self, DumpOpts, Outcome};
use crate::image::{self, Image};
use crate::report::Report;
use crate::rng::{fnv, Rng};
use crate::spec::*;
use crate::target::Target;
use crate::tspec::*;
use serde_json::json;
use std::os::unix::fs::MetadataExt;

fn stable_status_lines(s: &[u8]) -> Vec<String> {
    let keep = ["Name:", "Tgid:", "Pid:", "PPid:", "Uid:", "Gid:", "Threads:", "SigBlk:", "SigIgn:", "SigCgt:", "NStgid:", "Umask:", "Ngid:"];
    String::from_utf8_lossy(s).lines().filter(|l| keep.iter().any(|k| l.starts_with(k))).map(|l| l.to_string()).collect()
}

fn stable_cpuinfo_lines(s: &[u8]) -> Vec<String> {
    String::from_utf8_lossy(s).lines().filter(|l| !l.starts_with("cpu MHz") && !l.starts_with("bogomips")).map(|l| l.to_string()).collect()
}

fn protection_of(perms: &str) -> u32 {
    let b = perms.as_bytes();
    let (r, w, x) = (b[0] == b'r', b[1] == b'w', b[2] == b'x');
    match (r, w, x) {
        (false, false, false) => 0x01,
        (false, false, true) => 0x10,
        (true, false, false) => 0x02,
        (true, false, true) => 0x20,
        (_, true, false) => 0x04,
        (_, true, true) => 0x40,
    }
}

struct CpuTruth {
    family: u16,
    model: u16,
    stepping: u16,
    vendor: String,
    count: u32,
}

fn cpu_truth() -> Option<CpuTruth> {
    let text = std::fs::read_to_string("/proc/cpuinfo").ok()?;
    let mut t = CpuTruth { family: 0, model: 0, stepping: 0, vendor: String::new(), count: 0 };
    let (mut seen_f, mut seen_m, mut seen_s) = (false, false, false);
    let mut last_proc = 0;
    for l in text.lines() {
        let Some((k, v)) = l.split_once(':') else { continue };
        let (k, v) = (k.trim(), v.trim());
        match k {
            "processor" => last_proc = v.parse().unwrap_or(last_proc),
            "cpu family" if !seen_f => {
                t.family = v.parse().ok()?;
                seen_f = true;
            }
            "model" if !seen_m => {
                t.model = v.parse().ok()?;
                seen_m = true;
            }
            "stepping" if !seen_s => {
                t.stepping = v.parse().ok()?;
                seen_s = true;
            }
            "vendor_id" if t.vendor.is_empty() => t.vendor = v.to_string(),
            _ => {}
        }
    }
    t.count = last_proc + 1;
    Some(t)
}

fn uname_string() -> String {
    let mut u: libc::utsname = unsafe { std::mem::zeroed() };
    unsafe {
        libc::uname(&mut u);
    }
    let f = |a: &[libc::c_char]| unsafe { std::ffi::CStr::from_ptr(a.as_ptr()) }.to_string_lossy().into_owned();
    format!("{} {} {} {}", f(&u.sysname), f(&u.release), f(&u.version), f(&u.machine))
}

fn check_raw(rep: &mut Report, im: &Image, t: &Target, blamed: i32, case: &serde_json::Value) {
    for (st, file, name) in [
        (image::ST_LINUX_CMD_LINE, "cmdline", "command line"),
        (image::ST_LINUX_ENVIRON, "environ", "environment"),
        (image::ST_LINUX_AUXV, "auxv", "auxiliary vector"),
        (image::ST_MOZ_LINUX_LIMITS, "limits", "resource limits"),
        (image::ST_LINUX_MAPS, "maps", "memory map"),
    ] {
        let truth = std::fs::read(format!("/proc/{blamed}/{file}")).unwrap_or_default();
        rep.count("raw_streams_compared", 1);
        rep.count("raw_bytes_compared", truth.len() as u64);
        match im.raw.get(&st) {
            Some(got) if *got == truth => {}
            Some(got) => rep.violation(&format!("C18 raw stream `{name}` is not a byte copy"), json!({"case": case, "got_len": got.len(), "expected_len": truth.len(), "first_difference": (0..got.len().min(truth.len())).find(|&i| got[i] != truth[i])})),
            None => rep.violation(&format!("C18 raw stream `{name}` missing"), json!({"case": case, "soft_errors": im.soft_errors()})),
        }
    }
    let _ = t;
    // status: stable lines
    if let (Some(got), Ok(truth)) = (im.raw.get(&image::ST_LINUX_PROC_STATUS), std::fs::read(format!("/proc/{blamed}/status"))) {
        rep.count("raw_streams_compared", 1);
        if stable_status_lines(got) != stable_status_lines(&truth) {
            rep.violation("C18 status stream differs in non-volatile lines", json!({"case": case, "got": stable_status_lines(got), "expected": stable_status_lines(&truth)}));
        }
    } else {
        rep.violation("C18 status stream missing", json!({"case": case}));
    }
    if let (Some(got), Ok(truth)) = (im.raw.get(&image::ST_LINUX_CPU_INFO), std::fs::read("/proc/cpuinfo")) {
        rep.count("raw_streams_compared", 1);
        if stable_cpuinfo_lines(got) != stable_cpuinfo_lines(&truth) {
            rep.violation("C18 cpuinfo stream differs in non-volatile lines", json!({"case": case}));
        }
    } else {
        rep.violation("C18 cpuinfo stream missing", json!({"case": case}));
    }
    let rel = std::fs::read("/etc/lsb-release").or_else(|_| std::fs::read("/etc/os-release"));
    match (im.raw.get(&image::ST_LINUX_LSB_RELEASE), rel) {
        (Some(got), Ok(truth)) => {
            rep.count("raw_streams_compared", 1);
            if *got != truth {
                rep.violation("C18 release stream is not a copy of the release file", json!({"case": case}));
            }
        }
        (None, Err(_)) => {}
        (a, b) => rep.violation("C18 release stream presence does not match the release files", json!({"case": case, "stream": a.is_some(), "file": b.is_ok()})),
    }
}

fn check_meminfo(rep: &mut Report, im: &Image, t: &Target, blamed: i32, case: &serde_json::Value) {
    let text = std::fs::read_to_string(format!("/proc/{blamed}/maps")).unwrap_or_default();
    let lines = crate::target::parse_maps(&text);
    let _ = t;
    let Some(mi) = &im.meminfo else {
        rep.violation("C18 memory info list missing", json!({"case": case}));
        return;
    };
    rep.count("memory_info_entries_compared", lines.len() as u64);
    if mi.len() != lines.len() {
        rep.violation("C18 memory info list entry count differs from the memory map", json!({"case": case, "entries": mi.len(), "lines": lines.len()}));
        return;
    }
    for (e, l) in mi.iter().zip(lines.iter()) {
        let prot = protection_of(&l.perms);
        let ty = if l.perms.as_bytes()[3] == b'p' { 0x20000 } else { 0x40000 };
        if e.base != l.start || e.region_size != l.end - l.start || e.alloc_base != l.start {
            rep.violation("C18 memory info entry range differs from its memory map line", json!({"case": case, "line": format!("{:x}-{:x} {}", l.start, l.end, l.perms), "entry": format!("{:x}+{:x}", e.base, e.region_size)}));
            return;
        }
        if e.protection != prot || e.alloc_protection != prot {
            rep.violation("C18 memory info entry protection differs from its memory map line", json!({"case": case, "line": format!("{:x}-{:x} {}", l.start, l.end, l.perms), "protection": format!("{:#x}", e.protection), "expected": format!("{prot:#x}")}));
            return;
        }
        if e.ty != ty {
            rep.violation("C18 memory info entry private/shared type differs from its memory map line", json!({"case": case, "line": format!("{:x}-{:x} {}", l.start, l.end, l.perms), "type": format!("{:#x}", e.ty), "expected": format!("{ty:#x}")}));
            return;
        }
        if e.state != 0x1000 {
            rep.violation("C18 memory info entry state is not MEM_COMMIT", json!({"case": case, "state": format!("{:#x}", e.state)}));
            return;
        }
    }
}

fn check_handles(rep: &mut Report, im: &Image, t: &Target, case: &serde_json::Value) {
    let mut truth: Vec<(u64, String, u32)> = Vec::new();
    if let Ok(rd) = std::fs::read_dir(format!("/proc/{}/fd", t.pid)) {
        for e in rd.flatten() {
            let Ok(fd) = e.file_name().to_string_lossy().parse::<u64>() else { continue };
            let Ok(link) = std::fs::read_link(e.path()) else { continue };
            let Ok(md) = std::fs::metadata(e.path()) else { continue };
            truth.push((fd, link.to_string_lossy().into_owned(), md.mode()));
        }
    }
    truth.sort();
    let Some(h) = &im.handles else {
        rep.violation("C18 handle stream missing", json!({"case": case, "soft_errors": im.soft_errors()}));
        return;
    };
    let mut got: Vec<(u64, String, u32)> = h.iter().map(|x| (x.handle, x.object_name.clone().unwrap_or_default(), x.attributes)).collect();
    got.sort();
    rep.count("handles_compared", truth.len() as u64);
    if got != truth {
        let missing: Vec<&(u64, String, u32)> = truth.iter().filter(|x| !got.contains(x)).take(4).collect();
        let extra: Vec<&(u64, String, u32)> = got.iter().filter(|x| !truth.contains(x)).take(4).collect();
        rep.violation("C18 handle stream differs from the target's open descriptors", json!({"case": case, "descriptors": truth.len(), "listed": got.len(), "missing_or_wrong": missing, "unexpected": extra}));
    }
}

fn check_sysinfo(rep: &mut Report, im: &Image, case: &serde_json::Value) {
    let Some(s) = &im.sysinfo else {
        rep.violation("C18 system info missing", json!({"case": case}));
        return;
    };
    rep.count("system_info_compared", 1);
    let mut bad = Vec::new();
    if s.platform_id != 0x8201 {
        bad.push(format!("platform id {:#x} is not Linux (0x8201)", s.platform_id));
    }
    if s.processor_architecture != 9 {
        bad.push(format!("processor architecture {} is not AMD64 (9)", s.processor_architecture));
    }
    if let Some(c) = cpu_truth() {
        if s.processor_level != c.family {
            bad.push(format!("processor level {} != cpu family {}", s.processor_level, c.family));
        }
        if s.processor_revision != ((c.model << 8) | c.stepping) {
            bad.push(format!("processor revision {:#x} != model {} / stepping {}", s.processor_revision, c.model, c.stepping));
        }
        if s.number_of_processors as u32 != (c.count & 0xff) {
            bad.push(format!("number of processors {} != {}", s.number_of_processors, c.count));
        }
        let v = c.vendor.as_bytes();
        let n = v.len().min(12);
        if s.cpu[..n] != v[..n] {
            bad.push(format!("vendor {:?} != {:?}", String::from_utf8_lossy(&s.cpu[..12]), c.vendor));
        }
    }
    if s.csd_version.as_deref() != Some(uname_string().as_str()) {
        bad.push(format!("OS version string {:?} != uname {:?}", s.csd_version, uname_string()));
    }
    if !bad.is_empty() {
        rep.violation(&format!("C18 system info: {}", bad[0].split(|c: char| c.is_ascii_digit() || c == '"').next().unwrap_or("").trim()), json!({"case": case, "mismatches": bad}));
    }
}

/// (addr, name, ld) expected list + r_debug fields
struct ChainTruth {
    version: u32,
    brk: u64,
    ldbase: u64,
    dynamic: u64,
    dynamic_bytes: Vec<u8>,
    links: Vec<(u64, String, u64)>,
}

fn check_dso(rep: &mut Report, im: &Image, truth: &ChainTruth, which: &str, case: &serde_json::Value) {
    let Some(d) = &im.dso else {
        rep.violation(&format!("C18 linker debug stream missing ({which})"), json!({"case": case, "soft_errors": im.soft_errors()}));
        return;
    };
    rep.count("linker_streams_compared", 1);
    rep.count("link_map_entries_compared", truth.links.len() as u64);
    let mut bad = Vec::new();
    if d.version != truth.version {
        bad.push(format!("version {} != {}", d.version, truth.version));
    }
    if d.brk != truth.brk {
        bad.push(format!("brk {:#x} != {:#x}", d.brk, truth.brk));
    }
    if d.ldbase != truth.ldbase {
        bad.push(format!("ldbase {:#x} != {:#x}", d.ldbase, truth.ldbase));
    }
    if d.dynamic != truth.dynamic {
        bad.push(format!("dynamic section address {:#x} != {:#x}", d.dynamic, truth.dynamic));
    }
    if d.dynamic_bytes != truth.dynamic_bytes {
        bad.push(format!("dynamic section copy differs ({} vs {} bytes)", d.dynamic_bytes.len(), truth.dynamic_bytes.len()));
    }
    let got: Vec<(u64, String, u64)> = d.link_map.iter().map(|(a, n, l)| (*a, n.clone().unwrap_or_default(), *l)).collect();
    if got != truth.links {
        bad.push(format!("loaded-object list differs: {:?} vs {:?}", got.iter().take(6).collect::<Vec<_>>(), truth.links.iter().take(6).collect::<Vec<_>>()));
    }
    if !bad.is_empty() {
        rep.violation(&format!("C18 linker debug stream ({which}): {}", bad[0].split(|c: char| c.is_ascii_digit()).next().unwrap_or("").trim()), json!({"case": case, "mismatches": bad}));
    }
}

fn read_dynamic(t: &Target, addr: u64) -> Vec<u8> {
    let mut out = Vec::new();
    let mut a = addr;
    loop {
        let Ok(e) = t.read_mem(a, 16) else { break };
        out.extend_from_slice(&e);
        let tag = u64::from_le_bytes(e[..8].try_into().unwrap());
        if tag == 0 || out.len() > 16 * 4096 {
            break;
        }
        a += 16;
    }
    out
}

/// Fake linker chain poked into a region; returns (pokes, AT_PHDR, AT_PHNUM, truth)
fn fake_chain(rng: &mut Rng, base: u64) -> (Vec<(u64, Vec<u8>)>, u64, u64, ChainTruth) {
    // layout inside the region (one page aligned at `base`):
    //   +0x040 program headers: PT_PHDR?, PT_LOAD(offset 0, vaddr V), PT_DYNAMIC(vaddr V+0x200)
    //   +0x200 dynamic: DT_NEEDED, DT_DEBUG -> r_debug, DT_NULL
    //   +0x300 r_debug
    //   +0x400.. link_map entries, +0x800.. names
    let v: u64 = *rng.pick(&[0u64, 0, 0x1000, 0x40_0000]);
    let load_bias = base.wrapping_sub(v);
    let phdr_addr = base + 0x40;
    let mut pokes = Vec::new();
    let ph = |t: u32, off: u64, vaddr: u64, size: u64| -> Vec<u8> {
        let mut b = Vec::new();
        b.extend_from_slice(&t.to_le_bytes());
        b.extend_from_slice(&4u32.to_le_bytes());
        b.extend_from_slice(&off.to_le_bytes());
        b.extend_from_slice(&vaddr.to_le_bytes());
        b.extend_from_slice(&vaddr.to_le_bytes());
        b.extend_from_slice(&size.to_le_bytes());
        b.extend_from_slice(&size.to_le_bytes());
        b.extend_from_slice(&8u64.to_le_bytes());
        b
    };
    let mut phs = Vec::new();
    phs.extend(ph(6, 0x40, v + 0x40, 56 * 3)); // PT_PHDR
    phs.extend(ph(1, 0, v, 0x1000)); // PT_LOAD offset 0
    phs.extend(ph(2, 0x200, v + 0x200, 16 * 3)); // PT_DYNAMIC
    pokes.push((phdr_addr, phs));
    let dyn_addr = load_bias.wrapping_add(v + 0x200);
    let rdebug = base + 0x300;
    let mut dynb = Vec::new();
    for (t, val) in [(1u64, 1u64), (21, rdebug), (0, 0)] {
        dynb.extend_from_slice(&t.to_le_bytes());
        dynb.extend_from_slice(&val.to_le_bytes());
    }
    pokes.push((dyn_addr, dynb.clone()));
    let n = rng.range(0, 5) as usize;
    let lm0 = base + 0x400;
    let version = rng.range(1, 3) as u32;
    let (brk, ldbase) = (rng.next() >> 17, rng.next() >> 17);
    let mut rd = Vec::new();
    rd.extend_from_slice(&(version as i32).to_le_bytes());
    rd.extend_from_slice(&0u32.to_le_bytes());
    rd.extend_from_slice(&(if n > 0 { lm0 } else { 0 }).to_le_bytes());
    rd.extend_from_slice(&brk.to_le_bytes());
    // r_state: the linker may be in the middle of adding or removing an object (RT_ADD = 1,
    // RT_DELETE = 2) when the dump is taken; the list is recorded as it stands all the same.
    // (derived from a value already drawn: older seeds keep their random stream)
    rd.extend_from_slice(&((brk % 3) as u32).to_le_bytes());
    rd.extend_from_slice(&0u32.to_le_bytes());
    rd.extend_from_slice(&ldbase.to_le_bytes());
    pokes.push((rdebug, rd));
    let mut links = Vec::new();
    for i in 0..n {
        let at = lm0 + 0x40 * i as u64;
        let name_addr = base + 0x800 + 0x40 * i as u64;
        let name = match i % 4 {
            0 => String::new(),
            1 => format!("/fake/lib{i}.so.{}", rng.below(10)),
            2 => "/fake/with space/l\u{e9}b.so".to_string(),
            _ => "x".repeat(40),
        };
        let (l_addr, l_ld) = (rng.next() >> 17, rng.next() >> 17);
        let mut lm = Vec::new();
        lm.extend_from_slice(&l_addr.to_le_bytes());
        lm.extend_from_slice(&(if i % 4 == 0 && rng.chance(1, 2) { 0 } else { name_addr }).to_le_bytes());
        lm.extend_from_slice(&l_ld.to_le_bytes());
        lm.extend_from_slice(&(if i + 1 < n { at + 0x40 } else { 0 }).to_le_bytes());
        lm.extend_from_slice(&(if i > 0 { at - 0x40 } else { 0 }).to_le_bytes());
        pokes.push((at, lm));
        let mut nb = name.as_bytes().to_vec();
        nb.push(0);
        pokes.push((name_addr, nb));
        links.push((l_addr, name, l_ld));
    }
    (pokes, phdr_addr, 3, ChainTruth { version, brk, ldbase, dynamic: dyn_addr, dynamic_bytes: dynb, links })
}

pub fn run(rep: &mut Report, thorough: bool) {
    crate::util::install_quiet_panic_hook();
    rep.rule = "targets with generated argv/environment (empty strings, bytes 0x01-0xff, one 100 KiB value), 0..200 open descriptors of every kind (files incl. deleted and names with spaces, directory, pipe, socket pair, eventfd, /dev/null), random mappings (all permission combinations, shared file mapping), real and fake linker chains; blamed thread = main or another thread. Oracle: byte equality of the raw streams with the checker's own /proc reads while the target is quiescent; memory-info entries vs. maps lines; handles vs. own readlink+stat; system info vs. own /proc/cpuinfo parse and uname; linker stream vs. the target's own r_debug walk / the fake chain, with the auxv precedence rules. distinct = hash(target description, option); non-trivial = Ok dump".into();
    let mut rng = Rng::new(rep.seed.wrapping_mul(181_818));
    let ntargets = if thorough { 1000 } else { 8 };
    for ti in 0..ntargets {
        let mut b = Builder::new();
        b.spec.dir = crate::target::new_dir("c18");
        let dir = b.spec.dir.clone();
        // regions of every permission combination, plus a shared file mapping
        for prot in [0u8, 1, 2, 3, 4, 5, 6, 7] {
            if rng.chance(2, 3) {
                let (p, g) = (rng.range(1, 3), rng.range(1, 3));
                b.anon(p, g, prot, Fill::Keep);
            }
        }
        let shm = format!("{dir}/shared map.bin");
        std::fs::write(&shm, vec![7u8; 8192]).unwrap();
        let a = b.alloc(2, 2);
        b.add_region(Region { addr: a, len: 2 * PAGE, prot: if ti % 2 == 0 { 4 } else { 6 }, kind: RegionKind::SharedFile { path: shm, offset: 0 }, fill: Fill::Keep, pokes: Vec::new(), unlink_after: false });
        // fake linker chain region
        let fake = b.anon(1, 2, 6, Fill::Zero);
        let fake_addr = b.spec.regions[fake].addr;
        let (pokes, fake_phdr, fake_phnum, fake_truth) = fake_chain(&mut rng, fake_addr);
        b.spec.regions[fake].pokes = pokes;
        if fake_truth.brk % 3 != 0 {
            rep.count("fake_chains_in_a_transitional_linker_state", 1);
        }
        for _ in 0..rng.range(1, 3) {
            b.sentinel(&mut rng, Mode::Pause, &StackShape::default(), None, None);
        }
        // a thread with a private descriptor table: the handle stream describes the PROCESS's
        // descriptors whichever thread is blamed
        let private_fd_thread = b.thread(crate::spec::ThreadKind::PrivateFdTable, Some(b"privfds".to_vec()));
        // descriptors
        let nfds = *rng.pick(&[0usize, 1, 5, 30, 200]);
        for k in 0..nfds {
            b.spec.fds.push(match rng.below(8) {
                7 => FdSpec::DeadProcDir,
                0 => FdSpec::File { path: format!("{dir}/fd file {k}") },
                1 => FdSpec::DeletedFile { path: format!("{dir}/fd-del-{k}") },
                2 => FdSpec::Dir { path: dir.clone() },
                3 => FdSpec::Pipe,
                4 => FdSpec::Socket,
                5 => FdSpec::EventFd,
                _ => FdSpec::DevNull,
            });
        }
        // two (three) descriptors with the SAME link text but different files and modes: a file is
        // created, opened and unlinked, then the same path again
        if nfds > 0 {
            for _ in 0..(2 + ti % 2) {
                b.spec.fds.push(FdSpec::DeletedFile { path: format!("{dir}/same name twice") });
            }
        }
        // argv / environment
        let mut args: Vec<Vec<u8>> = Vec::new();
        for _ in 0..rng.below(6) {
            args.push(match rng.below(5) {
                0 => Vec::new(),
                1 => (1u8..=255).collect(),
                2 => vec![b'a'; 100 * 1024],
                3 => "arg with spaces \u{e9}\u{4e16}".as_bytes().to_vec(),
                _ => {
                    let n = rng.range(1, 40) as usize;
                    rng.bytes(n).into_iter().map(|x| if x == 0 { 1 } else { x }).collect()
                }
            });
        }
        let mut env: Vec<(Vec<u8>, Vec<u8>)> = vec![(b"PATH".to_vec(), b"/usr/bin".to_vec())];
        for k in 0..rng.below(6) {
            let val: Vec<u8> = match rng.below(4) {
                0 => Vec::new(),
                1 => (1u8..=255).collect(),
                2 => vec![b'v'; 100 * 1024],
                _ => {
                    let n = rng.range(1, 60) as usize;
                    rng.bytes(n).into_iter().map(|x| if x == 0 { 2 } else { x }).collect()
                }
            };
            env.push((format!("VERIF_ENV_{k}").into_bytes(), val));
        }
        b.opts.args = args.clone();
        // one target in four is started with an empty environment (`env -i`): its environ file has
        // length 0 and the stream is a copy of it all the same
        if fake_truth.brk % 4 == 1 {
            env.clear();
            rep.count("targets_with_an_empty_environment", 1);
        }
        b.opts.env = Some(env.clone());
        let t = match Target::spawn(b.spec.clone(), &b.opts) {
            Ok(t) => t,
            Err(e) => {
                rep.inconclusive(format!("target did not start: {e}"));
                continue;
            }
        };
        let m = t.manifest.clone();
        let real_truth = ChainTruth {
            version: m.r_version as u32,
            brk: m.r_brk,
            ldbase: m.r_ldbase,
            dynamic: m.dynamic_addr,
            dynamic_bytes: read_dynamic(&t, m.dynamic_addr),
            links: m.link_map.clone(),
        };
        // dumps: (blamed, direct auxv variant)
        let worker = t.manifest.tids[0];
        let variants: Vec<(i32, u8)> = vec![(t.pid, 0), (worker, 0), (t.pid, 1), (t.pid, 2), (t.pid, 3), (t.pid, 4), (t.manifest.tids[private_fd_thread], 0)];
        for (blamed, av) in variants {
            let mut o = DumpOpts::new(t.pid, blamed);
            let (expect_chain, which): (&ChainTruth, &str) = match av {
                0 => (&real_truth, "kernel auxv"),
                1 => {
                    o.direct_auxv = Some([fake_phnum, fake_phdr, 0, 0]);
                    (&fake_truth, "caller-supplied auxv names a fake chain")
                }
                2 => {
                    o.direct_auxv = Some([m.at_phnum, m.at_phdr, m.at_sysinfo_ehdr, m.at_entry]);
                    (&real_truth, "caller-supplied auxv equals the kernel's")
                }
                3 => {
                    o.direct_auxv = Some([0, 0, 0, 0]);
                    (&real_truth, "caller-supplied auxv all zero = unset")
                }
                _ => {
                    // only the program-header address is supplied: the count comes from the kernel
                    o.direct_auxv = Some([0, fake_phdr, 0, 0]);
                    (&fake_truth, "caller-supplied program header address only")
                }
            };
            t.settle();
            // two requests from ONE configured writer: caller-supplied auxiliary-vector values are
            // configuration, they hold for the second request exactly as for the first
            let (out, second) = {
                let _g = dump::DUMP_LOCK.lock().unwrap_or_else(|e| e.into_inner());
                let (mut w, _guard) = dump::configure(&o);
                let first = dump::dump_with(&mut w, &mut crate::dest::Dest::plain());
                t.settle();
                let second = dump::dump_with(&mut w, &mut crate::dest::Dest::plain());
                (first, second)
            };
            let case = json!({"args": args.len(), "env": env.len(), "fds": nfds, "blamed": if blamed == t.pid { "main" } else { "worker" }, "auxv_variant": which});
            if av != 4 {
                if let Outcome::Ok(img2) = &second {
                    let im2 = image::decode(img2);
                    rep.count("second_request_linker_streams_compared", 1);
                    check_dso(rep, &im2, expect_chain, &format!("{which} (second request from the same writer)"), &case);
                }
            }
            match out {
                Outcome::Ok(img) => {
                    let im = image::decode(&img);
                    rep.case(fnv(format!("{ti}/{blamed}/{av}/{}/{}", args.len(), nfds).as_bytes()), true);
                    rep.count("dumps_judged", 1);
                    check_raw(rep, &im, &t, blamed, &case);
                    check_meminfo(rep, &im, &t, blamed, &case);
                    check_handles(rep, &im, &t, &case);
                    check_sysinfo(rep, &im, &case);
                    // variant 4: the kernel's phnum is used with the fake phdr: only valid when the
                    // kernel's count covers the 3 fake headers and the extra entries parse harmlessly
                    if av != 4 {
                        check_dso(rep, &im, expect_chain, which, &case);
                    } else if let Some(d) = &im.dso {
                        rep.count("linker_streams_compared", 1);
                        if d.dynamic != fake_truth.dynamic {
                            rep.violation("C18 linker debug stream: caller-supplied program header address ignored", json!({"case": case, "dynamic": format!("{:#x}", d.dynamic), "expected": format!("{:#x}", fake_truth.dynamic)}));
                        }
                    }
                    if rep.samples.len() < 4 {
                        rep.sample(json!({"case": case, "link_map": im.dso.as_ref().map(|d| d.link_map.iter().take(3).collect::<Vec<_>>()), "handles": im.handles.as_ref().map(|h| h.len())}));
                    }
                }
                Outcome::Err(e) => {
                    rep.case(fnv(format!("{ti}/{blamed}/{av}e").as_bytes()), true);
                    rep.violation("C18 dump failed on a healthy target", json!({"case": case, "error": e.chars().take(200).collect::<String>()}));
                }
                Outcome::Panic { message, location } => {
                    rep.violation(&format!("C18 panic at {location}"), json!({"case": case, "panic": message}));
                }
            }
        }
    }
    single_instant_handles(rep, &mut rng, if thorough { 150 } else { 4 });
    exited_leader_streams(rep, &mut rng, if thorough { 60 } else { 4 });
    rep.require("raw_streams_compared", 50);
    rep.require("exited_leader_dumps_judged", 2);
    rep.require("memory_info_entries_compared", 100);
    rep.require("linker_streams_compared", 5);
    rep.require("system_info_compared", 5);
}


fn fd_snapshot(pid: i32) -> Vec<(u64, String)> {
    let mut v: Vec<(u64, String)> = std::fs::read_dir(format!("/proc/{pid}/fd"))
        .map(|rd| rd.flatten().filter_map(|e| Some((e.file_name().to_string_lossy().parse().ok()?, std::fs::read_link(e.path()).ok()?.to_string_lossy().into_owned()))).collect())
        .unwrap_or_default();
    v.sort();
    v
}

/// The handle stream describes the target at the instant its threads were suspended: a thread
/// keeps changing the descriptor table; the harness snapshots /proc/<pid>/fd when all threads are
/// suspended, and lets the target run (SIGCONT + wait for progress) right after the writer resumed
/// them. Whatever the writer reads after that point would show a different table.
fn single_instant_handles(rep: &mut Report, rng: &mut Rng, n: usize) {
    use minidump_writer::verif_hooks::{self, Point};
    use std::sync::{Arc, Mutex};
    for k in 0..n {
        let mut b = Builder::new();
        b.sentinel(rng, Mode::Pause, &StackShape::default(), None, None);
        let churn = b.thread(ThreadKind::FdChurner, Some(b"churner".to_vec()));
        for _ in 0..(k % 3) {
            b.spec.fds.push(FdSpec::Pipe);
        }
        let t = match Target::spawn(b.spec.clone(), &b.opts) {
            Ok(t) => Arc::new(t),
            Err(e) => {
                rep.inconclusive(format!("fd-churner target did not start: {e}"));
                continue;
            }
        };
        let snap: Arc<Mutex<Option<Vec<(u64, String)>>>> = Arc::new(Mutex::new(None));
        let (s2, t2) = (snap.clone(), t.clone());
        let o = DumpOpts::new(t.pid, t.pid);
        let _g = dump::DUMP_LOCK.lock().unwrap_or_else(|e| e.into_inner());
        verif_hooks::set_sync(Some(Box::new(move |p| match p {
            Point::ThreadsSuspended => {
                *s2.lock().unwrap() = Some(fd_snapshot(t2.pid));
            }
            Point::AfterResume => {
                // somebody continues the process (a supervisor, job control): legitimate at any time
                unsafe {
                    libc::kill(t2.pid, libc::SIGCONT);
                }
                let before = t2.ctl.slot(churn, SLOT_HEARTBEAT);
                let t0 = std::time::Instant::now();
                while t2.ctl.slot(churn, SLOT_HEARTBEAT) < before + 20 && t0.elapsed().as_secs() < 10 {
                    std::thread::sleep(std::time::Duration::from_micros(200));
                }
            }
            _ => {}
        })));
        let (out, _) = dump::dump(&o);
        verif_hooks::set_sync(None);
        drop(_g);
        rep.case(fnv(format!("instant/{k}").as_bytes()), true);
        match out {
            Outcome::Ok(img) => {
                let im = image::decode(&img);
                let want = snap.lock().unwrap().clone();
                let (Some(want), Some(h)) = (want, im.handles.as_ref()) else {
                    rep.inconclusive("no descriptor snapshot / no handle stream".into());
                    continue;
                };
                let mut got: Vec<(u64, String)> = h.iter().map(|x| (x.handle, x.object_name.clone().unwrap_or_default())).collect();
                got.sort();
                rep.count("single_instant_handle_checks", 1);
                if got != want {
                    let diff: Vec<&(u64, String)> = got.iter().filter(|x| !want.contains(x)).chain(want.iter().filter(|x| !got.contains(x))).take(4).collect();
                    rep.violation("C18 handle stream does not describe the descriptors the target had while it was suspended", json!({"differing_entries": diff, "listed": got.len(), "at_suspension": want.len()}));
                }
            }
            Outcome::Err(e) => rep.violation("C18 dump failed on a healthy target", json!({"case": "fd churner", "error": e.chars().take(200).collect::<String>()})),
            Outcome::Panic { message, location } => rep.violation(&format!("C18 panic at {location}"), json!({"panic": message})),
        }
    }
    rep.require("single_instant_handle_checks", 2);
}


/// A target whose thread-group leader has exited (zombie) while other threads live on: the
/// per-process files under /proc/<pid>/ read as empty or fail, those under /proc/<live tid>/ still
/// report the command line, environment, limits, auxiliary vector and memory map. The dump blames
/// a live thread; the raw streams must still be copies of what the kernel reports for it.
fn exited_leader_streams(rep: &mut Report, rng: &mut Rng, n: usize) {
    for k in 0..n {
        let mut b = Builder::new();
        for _ in 0..(1 + k % 3) {
            b.sentinel(rng, Mode::Pause, &StackShape::default(), None, None);
        }
        b.spec.leader_exit = true;
        let (n1, n2) = (1 + rng.usize_below(30), 1 + rng.usize_below(50));
        b.opts.args = vec![b"leader-exits".to_vec(), rng.bytes(n1).into_iter().map(|x| if x == 0 { 1 } else { x }).collect()];
        b.opts.env = Some(vec![(b"PATH".to_vec(), b"/usr/bin".to_vec()), (b"VERIF_LEADER".to_vec(), rng.bytes(n2).into_iter().map(|x| if x == 0 { 3 } else { x }).collect())]);
        let t = match Target::spawn(b.spec.clone(), &b.opts) {
            Ok(t) => t,
            Err(e) => {
                rep.inconclusive(format!("exited-leader target did not start: {e}"));
                continue;
            }
        };
        let t0 = std::time::Instant::now();
        while t.thread_status(t.pid).map(|s| s.0) != Some('Z') && t0.elapsed().as_secs() < 20 {
            std::thread::sleep(std::time::Duration::from_millis(1));
        }
        let worker = t.manifest.tids[k % t.manifest.tids.len()];
        let mut o = DumpOpts::new(t.pid, worker);
        o.stop_timeout_ms = Some(30);
        t.settle();
        let (out, _) = {
            let _g = dump::DUMP_LOCK.lock().unwrap_or_else(|e| e.into_inner());
            dump::dump(&o)
        };
        let case = json!({"case": "thread-group leader exited, a live thread is blamed", "threads": t.manifest.tids.len()});
        match out {
            Outcome::Ok(img) => {
                let im = image::decode(&img);
                rep.case(fnv(format!("leader/{k}").as_bytes()), true);
                rep.count("exited_leader_dumps_judged", 1);
                for (st, file, name) in [(image::ST_LINUX_CMD_LINE, "cmdline", "command line"), (image::ST_LINUX_ENVIRON, "environ", "environment"), (image::ST_MOZ_LINUX_LIMITS, "limits", "resource limits"), (image::ST_LINUX_MAPS, "maps", "memory map")] {
                    let Ok(truth) = std::fs::read(format!("/proc/{worker}/{file}")) else { continue };
                    if truth.is_empty() {
                        continue;
                    }
                    rep.count("raw_streams_compared", 1);
                    match im.raw.get(&st) {
                        Some(got) if *got == truth => {}
                        Some(got) => rep.violation(&format!("C18 raw stream `{name}` is not a byte copy (leader exited)"), json!({"case": case, "got_len": got.len(), "expected_len": truth.len()})),
                        None => rep.violation(&format!("C18 raw stream `{name}` missing (leader exited)"), json!({"case": case, "soft_errors": im.soft_errors()})),
                    }
                }
            }
            Outcome::Err(e) => rep.violation("C18 dump failed on a target whose leader exited", json!({"case": case, "error": e.chars().take(200).collect::<String>()})),
            Outcome::Panic { message, location } => rep.violation(&format!("C18 panic at {location}"), json!({"case": case, "panic": message})),
        }
    }
}
