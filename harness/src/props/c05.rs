//! C05 — crash attribution matches what the caller supplied.

use crate::dump::{self, CrashSpec, DumpOpts, Outcome, REG_CSGSFS, REG_EFL, REG_R10, REG_R11, REG_R12, REG_R13, REG_R14, REG_R15, REG_R8, REG_R9, REG_RAX, REG_RBP, REG_RBX, REG_RCX, REG_RDI, REG_RDX, REG_RIP, REG_RSI, REG_RSP};
use crate::image::{self, Context};
use crate::report::Report;
use crate::rng::{fnv, Rng};
use crate::spec::*;
use crate::target::Target;
use crate::tspec::*;
use serde_json::json;

/// Own decode of the supplied crash context into the expected CONTEXT_AMD64 fields.
/// Returns a list of (field name, expected, got) mismatches.
pub fn compare_crash_context(c: &Context, spec: &CrashSpec) -> Vec<String> {
    let g = |i: usize| spec.gregs[i] as u64;
    let mut bad = Vec::new();
    let mut chk = |name: &str, got: u64, exp: u64| {
        if got != exp {
            bad.push(format!("{name}: context has {got:#x}, supplied {exp:#x}"));
        }
    };
    chk("rax", c.rax(), g(REG_RAX));
    chk("rbx", c.rbx(), g(REG_RBX));
    chk("rcx", c.rcx(), g(REG_RCX));
    chk("rdx", c.rdx(), g(REG_RDX));
    chk("rsi", c.rsi(), g(REG_RSI));
    chk("rdi", c.rdi(), g(REG_RDI));
    chk("rbp", c.rbp(), g(REG_RBP));
    chk("rsp", c.rsp(), g(REG_RSP));
    chk("r8", c.r(8), g(REG_R8));
    chk("r9", c.r(9), g(REG_R9));
    chk("r10", c.r(10), g(REG_R10));
    chk("r11", c.r(11), g(REG_R11));
    chk("r12", c.r(12), g(REG_R12));
    chk("r13", c.r(13), g(REG_R13));
    chk("r14", c.r(14), g(REG_R14));
    chk("r15", c.r(15), g(REG_R15));
    chk("rip", c.rip, g(REG_RIP));
    chk("eflags", c.eflags as u64, g(REG_EFL) & 0xffff_ffff);
    chk("cs", c.cs as u64, g(REG_CSGSFS) & 0xffff);
    chk("gs", c.gs as u64, (g(REG_CSGSFS) >> 16) & 0xffff);
    chk("fs", c.fs as u64, (g(REG_CSGSFS) >> 32) & 0xffff);
    // floating point / SSE: fpregset_t (FXSAVE layout) -> XMM_SAVE_AREA32
    let f = &spec.fpstate;
    let fs = &c.float_save;
    let u16at = |b: &[u8], o: usize| u16::from_le_bytes([b[o], b[o + 1]]) as u64;
    let u32at = |b: &[u8], o: usize| u32::from_le_bytes(b[o..o + 4].try_into().unwrap()) as u64;
    if f.len() == 512 {
        chk("x87 control word", u16at(fs, 0), u16at(f, 0));
        chk("x87 status word", u16at(fs, 2), u16at(f, 2));
        chk("x87 tag word", fs[4] as u64, f[4] as u64);
        chk("x87 opcode", u16at(fs, 6), u16at(f, 6));
        chk("x87 instruction pointer (low 32)", u32at(fs, 8), u32at(f, 8));
        chk("x87 data pointer (low 32)", u32at(fs, 16), u32at(f, 16));
        chk("mxcsr", u32at(fs, 24), u32at(f, 24));
        chk("mxcsr mask", u32at(fs, 28), u32at(f, 28));
        for i in 0..8 {
            if fs[32 + 16 * i..48 + 16 * i] != f[32 + 16 * i..48 + 16 * i] {
                bad.push(format!("st{i}: differs from the supplied floating-point state"));
            }
        }
        for i in 0..16 {
            if fs[160 + 16 * i..176 + 16 * i] != f[160 + 16 * i..176 + 16 * i] {
                bad.push(format!("xmm{i}: differs from the supplied floating-point state"));
            }
        }
    }
    bad
}

pub fn random_crash(rng: &mut Rng, tid: i32, rsp: u64, rip: u64, walking: Option<usize>) -> CrashSpec {
    let mut gregs: Vec<i64>;
    let mut fp: Vec<u8>;
    match walking {
        None => {
            gregs = (0..23).map(|_| rng.next() as i64).collect();
            fp = rng.bytes(512);
        }
        Some(k) => {
            // walking-one: field k carries a unique value, everything else is zero
            gregs = vec![0; 23];
            fp = vec![0; 512];
            if k < 19 {
                gregs[k] = (0x1111_0000_0000_0101u64.wrapping_mul(k as u64 + 3)) as i64;
            } else {
                let o = (k - 19) * 16 % 416;
                for (j, b) in fp[o..o + 16].iter_mut().enumerate() {
                    *b = (k * 16 + j + 1) as u8;
                }
            }
        }
    }
    gregs[REG_RSP] = rsp as i64;
    gregs[REG_RIP] = rip as i64;
    CrashSpec { gregs, fpstate: fp, signo: *rng.pick(&[11u32, 6, 7, 4, 8, 5, 31]), code: *rng.pick(&[1i32, 2, -6, 0, 128, i32::MIN, i32::MAX]), addr: rng.interesting_u64(), tid, noise_seed: if walking.is_some() { 0 } else { rng.next() | 1 } }
}

pub fn run_direct(rep: &mut Report, n: u64) {
    use minidump_writer::minidump_cpu::RawContextCPU;
    let seed = rep.seed;
    let results = crate::util::par_map(n, |i| {
        let mut rng = Rng::new(seed.wrapping_mul(5_000_011).wrapping_add(i));
        let walking = if i % 4 == 0 { Some((i / 4) as usize % 45) } else { None };
        let (a, b) = (rng.next(), rng.next() >> 3);
        let spec = random_crash(&mut rng, 1, a, b, walking);
        let cc = dump::build_crash_context(&spec, 1);
        let mut cpu = RawContextCPU::default();
        cc.fill_cpu_context(&mut cpu);
        // serialize by hand-known layout: use the image decoder on scroll's output
        let mut buf = minidump_writer::mem_writer::Buffer::with_capacity(0);
        let _ = minidump_writer::mem_writer::MemoryWriter::alloc_with_val(&mut buf, cpu);
        let bytes: Vec<u8> = buf.into();
        let ctx = image::decode_context(&bytes).expect("1232-byte context");
        let bad = compare_crash_context(&ctx, &spec);
        let ip_ok = cc.get_instruction_pointer() as u64 == spec.gregs[REG_RIP] as u64 && cc.get_stack_pointer() as u64 == spec.gregs[REG_RSP] as u64;
        (fnv(&bytes), bad, ip_ok, walking)
    });
    for (h, bad, ip_ok, walking) in results {
        rep.case(h, true);
        rep.count("direct_contexts", 1);
        if !ip_ok {
            rep.violation("C05 direct instruction/stack pointer accessor wrong", json!({"walking": walking}));
        }
        if !bad.is_empty() {
            let field = bad[0].split(':').next().unwrap_or("").to_string();
            let class = if field.starts_with("xmm") || field.starts_with("st") || field.starts_with("x87") || field.starts_with("mxcsr") { "fp/sse".to_string() } else { field };
            rep.violation(&format!("C05 direct context field {class}"), json!({"walking_one_field": walking, "mismatches": bad.iter().take(5).collect::<Vec<_>>()}));
        }
    }
}

pub fn run_live(rep: &mut Report, targets: u64, per_target: u64) {
    let mut rng = Rng::new(rep.seed.wrapping_mul(505_051));
    for ti in 0..targets {
        let mut b = Builder::new();
        let ex = b.anon(2, 4, 5, Fill::Pattern);
        let exa = b.spec.regions[ex].addr;
        // every fourth target has more threads than a size limit keeps at full length; its dumps
        // carry a limit and often blame a thread late in the list
        let many = ti % 4 == 3;
        let n = if many { 26 } else { rng.range(1, 4) as usize };
        for _ in 0..n {
            let mode = if rng.chance(1, 3) { Mode::Spin } else { Mode::Pause };
            b.sentinel(&mut rng, mode, &StackShape::default(), None, None);
        }
        // a thread of the target that is NOT listed (null stack pointer: deliberately skipped)
        let unlisted_idx = b.sentinel(&mut rng, Mode::Pause, &StackShape { pages: 0, sp_offset: 0, ..Default::default() }, Some(b"nullsp".to_vec()), None);
        let t = match Target::spawn(b.spec.clone(), &b.opts) {
            Ok(t) => t,
            Err(e) => {
                rep.inconclusive(format!("target did not start: {e}"));
                continue;
            }
        };
        for k in 0..per_target {
            // blamed thread: main, another listed thread, a thread of the target that is not
            // listed, or a tid not in the process
            let which = rng.below(12);
            let (blamed, present) = if which < 3 {
                (t.pid, true)
            } else if which < 8 {
                (t.manifest.tids[b.sentinels[rng.usize_below(n)].index], true)
            } else if which < 10 {
                (t.manifest.tids[unlisted_idx], true)
            } else {
                (t.pid + 100_000 + rng.below(1000) as i32, false)
            };
            let (blamed, present) = if many && which >= 3 && which < 8 && k % 2 == 0 {
                // one of the last threads in the list
                (t.manifest.tids[b.sentinels[n - 1 - rng.usize_below(4)].index], true)
            } else {
                (blamed, present)
            };
            let with_ctx = if many { k % 4 == 1 } else { k % 3 != 2 };
            let mut o = DumpOpts::new(t.pid, blamed);
            if many {
                o.size_limit = Some(*rng.pick(&[0u64, 1 << 17, 1 << 40]));
                rep.count("live_dumps_many_threads_with_size_limit", 1);
            }
            if with_ctx {
                let s = &b.sentinels[rng.usize_below(n)];
                let rsp = if rng.chance(3, 4) { s.stack_base + rng.below(s.stack_len) } else { rng.next() >> 18 };
                let rip = if rng.chance(3, 4) { exa + rng.below(2 * PAGE) } else { rng.next() >> 18 };
                let walking = if rng.chance(1, 4) { Some(rng.usize_below(45)) } else { None };
                let mut c = random_crash(&mut rng, blamed, rsp, rip, walking);
                // the thread id recorded INSIDE the supplied context need not be the blamed thread's
                // (a namespace-local id, the id of whichever thread captured the context, the
                // process id): the caller's blamed thread decides
                if rng.chance(1, 3) {
                    c.tid = match rng.below(4) {
                        0 => t.pid,
                        1 => t.manifest.tids[b.sentinels[rng.usize_below(n)].index],
                        2 => 1,
                        _ => blamed.wrapping_add(7),
                    };
                    if c.tid != blamed {
                        rep.count("crash_contexts_whose_own_tid_is_not_the_blamed_thread", 1);
                    }
                }
                o.crash = Some(c);
            }
            t.settle();
            let (out, _) = {
                let _g = dump::DUMP_LOCK.lock().unwrap_or_else(|e| e.into_inner());
                dump::dump(&o)
            };
            let desc = fnv(format!("{which}/{with_ctx}/{:?}", o.crash.as_ref().map(|c| c.gregs.clone())).as_bytes());
            let case = json!({"blamed": if blamed == t.pid { "main" } else if blamed == t.manifest.tids[unlisted_idx] { "thread of the target that is not listed" } else if present { "other listed thread" } else { "tid not in the process" }, "with_crash_context": with_ctx});
            match out {
                Outcome::Ok(img) => {
                    let im = image::decode(&img);
                    rep.case(desc, true);
                    rep.count("live_dumps_judged", 1);
                    let Some(x) = &im.exception else {
                        rep.violation("C05 exception stream missing", json!({"case": case}));
                        continue;
                    };
                    let mut bad: Vec<String> = Vec::new();
                    if x.thread_id != blamed as u32 {
                        bad.push(format!("thread_id {} != blamed {}", x.thread_id, blamed));
                    }
                    let th = im.threads.as_ref().and_then(|v| v.iter().find(|th| th.tid == blamed as u32));
                    if let Some(c) = &o.crash {
                        if x.code != c.signo {
                            bad.push(format!("exception code {} != signal number {}", x.code, c.signo));
                        }
                        if x.flags != c.code as u32 {
                            bad.push(format!("exception flags {:#x} != signal code {:#x}", x.flags, c.code as u32));
                        }
                        if x.address != c.addr {
                            bad.push(format!("exception address {:#x} != fault address {:#x}", x.address, c.addr));
                        }
                        if let Some(th) = th {
                            if (x.ctx_rva, x.ctx_size) != (th.ctx_rva, th.ctx_size) {
                                bad.push(format!("exception context location ({},{}) != blamed thread's context location ({},{})", x.ctx_rva, x.ctx_size, th.ctx_rva, th.ctx_size));
                            }
                            match &th.ctx {
                                Some(ctx) => bad.extend(compare_crash_context(ctx, c).into_iter().map(|m| format!("thread context {m}"))),
                                None => bad.push("blamed thread has no context".into()),
                            }
                        }
                        if let Some(ctx) = &x.ctx {
                            bad.extend(compare_crash_context(ctx, c).into_iter().map(|m| format!("exception context {m}")));
                        } else if th.is_some() {
                            bad.push("exception has no context although the blamed thread is listed".into());
                        }
                        rep.count("crash_contexts_compared", 1);
                    } else {
                        if x.code != 0xffff_ffff {
                            bad.push(format!("exception code {:#x} is not 'dump requested'", x.code));
                        }
                        if let Some(th) = th {
                            let ctx = th.ctx.as_ref();
                            if (x.ctx_rva, x.ctx_size) != (th.ctx_rva, th.ctx_size) {
                                bad.push(format!("exception context location ({},{}) != blamed thread's context location ({},{})", x.ctx_rva, x.ctx_size, th.ctx_rva, th.ctx_size));
                            }
                            if let Some(ctx) = ctx {
                                if x.address != ctx.rip {
                                    bad.push(format!("exception address {:#x} != blamed thread's instruction pointer {:#x}", x.address, ctx.rip));
                                }
                                // the captured context of a sentinel must be the sentinel's registers
                                if let Some(s) = b.sentinels.iter().find(|s| t.manifest.tids[s.index] == blamed) {
                                    let (m, _) = crate::props::c04::compare_sentinel(ctx, s);
                                    bad.extend(m.into_iter().map(|m| format!("captured context {m}")));
                                }
                            }
                            rep.count("dump_requested_records_compared", 1);
                        }
                    }
                    if !bad.is_empty() {
                        let key = bad[0].split(|c: char| c.is_ascii_digit() || c == ':').next().unwrap_or("").trim().to_string();
                        rep.violation(&format!("C05 live {} ({})", key, if with_ctx { "crash context" } else { "no crash context" }), json!({"case": case, "mismatches": bad.iter().take(6).collect::<Vec<_>>()}));
                    }
                    if rep.samples.len() < 5 {
                        rep.sample(json!({"case": case, "exception": {"thread_id": x.thread_id, "code": x.code, "flags": x.flags, "address": format!("{:#x}", x.address)}}));
                    }
                }
                Outcome::Err(e) => {
                    rep.case(desc, false);
                    rep.count("dumps_no_verdict(err)", 1);
                    if rep.counter("dumps_no_verdict(err)") <= 3 {
                        rep.note(&format!("no verdict (Err): {} [{case}]", e.chars().take(120).collect::<String>()));
                    }
                }
                Outcome::Panic { message, location } => {
                    rep.case(desc, true);
                    rep.violation(&format!("C05 panic at {location}"), json!({"case": case, "panic": message}));
                }
            }
        }
    }
}

pub fn run(rep: &mut Report, thorough: bool) {
    crate::util::install_quiet_panic_hook();
    rep.rule = "direct: random and walking-one (one source field unique, all others zero) ucontext/fpstate contents through the public CrashContext::fill_cpu_context, compared field by field with an own decoding table. live: real dumps with random crash contexts / siginfo and blamed thread in {main, other listed thread, tid not in the process}, with and without crash context; exception record, context location identity with the blamed thread's entry, and both contexts are compared. distinct = hash of the context bytes; non-trivial = a context was compared".into();
    if cfg!(miri) {
        run_direct(rep, 150);
        return;
    }
    run_direct(rep, if thorough { 200_000 } else { 20_000 });
    let (t, p) = if thorough { (150, 20) } else { (10, 12) };
    run_live(rep, t, p);
    rep.require("direct_contexts", 1000);
    rep.require("crash_contexts_compared", 10);
    rep.require("crash_contexts_whose_own_tid_is_not_the_blamed_thread", 1);
    rep.require("dump_requested_records_compared", 5);
}
