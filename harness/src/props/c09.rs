//! C09 — the destination receives exactly the image that was built.
//!
//! History level: random (grow, emit directory entry, flush) sequences on the real `DirSection`
//! over hostile destinations, with a content-only reference FILE MODEL compared with the real
//! destination after EVERY call. Whole-dump level (live targets) is in `live_dump`.

use crate::dest::{Dest, Fault, Mode};
use crate::report::Report;
use crate::rng::{fnv, Rng};
use minidump_writer::dir_section::DirSection;
use minidump_writer::mem_writer::*;
use minidump_writer::minidump_format::*;
use serde_json::{json, Value};

fn write_at(f: &mut Vec<u8>, at: usize, data: &[u8]) {
    if data.is_empty() {
        return;
    }
    if f.len() < at {
        f.resize(at, 0);
    }
    if f.len() < at + data.len() {
        f.resize(at + data.len(), 0);
    }
    f[at..at + data.len()].copy_from_slice(data);
}

/// a directory entry with any field values; zero fields are common in real dumps (an empty
/// stream has size 0 but a type and a position; a failed optional stream hands in an all-zero entry)
fn random_dirent(rng: &mut Rng) -> MDRawDirectory {
    let mut f = |rng: &mut Rng| if rng.chance(1, 3) { 0 } else { rng.u32() };
    let (t, sz, rva) = (f(rng), f(rng), f(rng));
    MDRawDirectory { stream_type: t, location: MDLocationDescriptor { data_size: sz, rva } }
}

fn dirent_bytes(d: &MDRawDirectory) -> [u8; 12] {
    let mut b = [0u8; 12];
    b[0..4].copy_from_slice(&d.stream_type.to_le_bytes());
    b[4..8].copy_from_slice(&d.location.data_size.to_le_bytes());
    b[8..12].copy_from_slice(&d.location.rva.to_le_bytes());
    b
}

fn first_diff(a: &[u8], b: &[u8]) -> String {
    let n = std::cmp::min(a.len(), b.len());
    let i = (0..n).find(|&i| a[i] != b[i]).unwrap_or(n);
    format!("lengths real={} model={}, first differing offset {}", a.len(), b.len(), i)
}

pub struct Outcome {
    pub ops: Vec<String>,
    pub calls: usize,
    pub descriptor: u64,
    pub failure: Option<String>,
    pub fault_hit: bool,
}

/// One history. All choices derive from `seed`.
pub fn run_history(seed: u64) -> Outcome {
    let mut rng = Rng::new(seed);
    let mut ops: Vec<String> = Vec::new();
    // --- destination
    let start: u64 = if cfg!(miri) { *rng.pick(&[0u64, 1, 7, 300]) } else { *rng.pick(&[0u64, 0, 1, 7, 4095, 4096, 1_000_000, 12]) };
    let init_len = match rng.below(4) {
        0 => 0usize,
        1 => rng.usize_below(start as usize + 1),
        2 => start as usize + rng.usize_below(64),
        _ => start as usize + if cfg!(miri) { 600 } else { 20_000 } + rng.usize_below(100),
    };
    let init_len = if start == 1_000_000 && rng.chance(1, 2) { rng.usize_below(200) } else { init_len };
    let initial = rng.bytes(init_len);
    let mode = match rng.below(3) {
        0 => Mode::Plain,
        1 => Mode::Short(1 + rng.usize_below(40)),
        _ => Mode::Interrupting(1 + rng.usize_below(40)),
    };
    let mut dest = Dest::new(initial.clone(), start, mode.clone(), rng.next());
    let view = dest.clone();
    let fault = match rng.below(5) {
        0 => Fault::Error,
        1 => Fault::PartialThenError,
        _ => Fault::None,
    };
    let mut fail_at = None;
    if fault != Fault::None {
        let at = rng.usize_below(40);
        dest.set_fault(at, fault);
        fail_at = Some(at);
    }
    ops.push(format!("dest(start={start}, preexisting={init_len}, mode={mode:?}, fault={fault:?}@{fail_at:?})"));
    let mut fexp = initial.clone();

    // --- image
    let mut buffer = Buffer::with_capacity(0);
    let pre = *rng.pick(&[0usize, 32, 32, 5, 100]);
    if pre > 0 {
        let b = rng.bytes(pre);
        buffer.write_all(&b);
    }
    let count = rng.range(0, 8) as u32;
    let mut flushed = 0usize;
    let mut emitted = 0u32;
    let mut dir = match DirSection::new(&mut buffer, count, &mut dest) {
        Ok(d) => d,
        Err(e) => {
            // only an injected fault (the position query is destination call 0) may make it fail,
            // and then nothing may have been written
            let injected = view.failed();
            let untouched = view.data() == initial;
            let failure = if !injected {
                Some(format!("DirSection::new failed without an injected fault: {e}"))
            } else if !untouched {
                Some("DirSection::new failed and modified the destination".to_string())
            } else {
                None
            };
            return Outcome { ops, calls: view.calls(), descriptor: seed, failure, fault_hit: injected };
        }
    };
    let dir_pos = dir.position() as usize;
    if dir_pos != pre {
        return Outcome { ops, calls: 0, descriptor: seed, failure: Some(format!("directory position {dir_pos} != buffer length {pre} at creation")), fault_hit: false };
    }
    ops.push(format!("new(pre={pre}, entries={count})"));
    let nops = rng.range(1, if cfg!(miri) { 12 } else { 40 });
    let mut failure = None;
    let mut kinds = Vec::new();
    let mut fault_hit = false;
    for _ in 0..nops {
        let op = rng.below(10);
        // snapshot of the model before the op (for the fault case)
        let before = fexp.clone();
        let pre_img: Vec<u8> = (&*buffer).to_vec();
        let flushed_before = flushed;
        let mut applied: Vec<(usize, Vec<u8>)> = Vec::new(); // (absolute offset, data) in order
        let res: Result<(), String>;
        if op < 4 {
            // grow
            let n = if cfg!(miri) { *rng.pick(&[1usize, 2, 4, 12, 13, 100]) } else { *rng.pick(&[1usize, 2, 4, 12, 13, 100, 4096, 5000]) };
            let mut n = 1 + rng.usize_below(n);
            // now and then a really large growth (size-dependent paths: chunking, 32-bit casts)
            if rng.chance(1, 120) && mode == Mode::Plain && fault == Fault::None {
                n = *rng.pick(&[65_536usize, (1 << 20) - 1, 1 << 20, (1 << 20) + 1, 3 << 20]);
            }
            match rng.below(3) {
                0 => {
                    let b = rng.bytes(n);
                    MemoryArrayWriter::<u8>::write_bytes(&mut buffer, &b);
                }
                1 => {
                    for _ in 0..(n / 4 + 1) {
                        let _ = MemoryWriter::<u32>::alloc_with_val(&mut buffer, rng.u32());
                    }
                }
                _ => {
                    let b = rng.bytes(n);
                    buffer.write_all(&b);
                }
            }
            ops.push(format!("grow(+{})", buffer.position() as usize - flushed));
            kinds.push(b'g');
            res = Ok(());
        } else if op < 6 && emitted < count {
            let d = random_dirent(&mut rng);
            let off = start as usize + dir_pos + 12 * emitted as usize;
            applied.push((off, dirent_bytes(&d).to_vec()));
            ops.push(format!("emit[{emitted}]"));
            kinds.push(b'e');
            res = dir.dump_dir_entry(&mut buffer, d).map_err(|e| e.to_string());
            emitted += 1;
        } else if op < 8 && emitted < count {
            let d = random_dirent(&mut rng);
            let off = start as usize + dir_pos + 12 * emitted as usize;
            applied.push((off, dirent_bytes(&d).to_vec()));
            ops.push(format!("flush+emit[{emitted}](+{})", buffer.position() as usize - flushed));
            kinds.push(b'x');
            res = dir.write_to_file(&mut buffer, Some(d)).map_err(|e| e.to_string());
            emitted += 1;
            let img: &[u8] = &buffer;
            applied.push((start as usize + flushed, img[flushed..].to_vec()));
            flushed = img.len();
        } else {
            ops.push(format!("flush(+{})", buffer.position() as usize - flushed));
            kinds.push(b'f');
            res = dir.write_to_file(&mut buffer, None).map_err(|e| e.to_string());
            let img: &[u8] = &buffer;
            applied.push((start as usize + flushed, img[flushed..].to_vec()));
            flushed = img.len();
        }
        let (real, failed_now) = (view.data(), view.failed());
        match res {
            Ok(()) => {
                for (at, data) in &applied {
                    write_at(&mut fexp, *at, data);
                }
                if real != fexp {
                    failure = Some(format!("after `{}`: destination differs from file model: {}", ops.last().unwrap(), first_diff(&real, &fexp)));
                    break;
                }
                // the property in its own words
                let img: &[u8] = &buffer;
                let s = start as usize;
                if flushed > 0 && real.get(s..s + flushed) != Some(&img[..flushed]) {
                    failure = Some(format!("after `{}`: destination[s..s+flushed] != image[..flushed]", ops.last().unwrap()));
                    break;
                }
            }
            Err(e) => {
                if !failed_now {
                    failure = Some(format!("`{}` returned an error without an injected fault: {e}", ops.last().unwrap()));
                    break;
                }
                fault_hit = true;
                // abort case: the model before the op plus a PREFIX of the op's writes (the
                // statement does not fix the order of the slot write and the append)
                let mut ok = false;
                let mut orders: Vec<Vec<(usize, Vec<u8>)>> = vec![applied.clone()];
                if applied.len() == 2 {
                    // append first (image as it was before the slot was set), then the slot
                    orders.push(vec![(start as usize + flushed_before, pre_img[flushed_before..].to_vec()), applied[0].clone()]);
                }
                'orders: for order in &orders {
                    let mut cand = before.clone();
                    if real == cand {
                        ok = true;
                        break;
                    }
                    for (at, data) in order {
                        for k in 1..=data.len() {
                            let mut c2 = cand.clone();
                            write_at(&mut c2, *at, &data[..k]);
                            if real == c2 {
                                ok = true;
                                break 'orders;
                            }
                        }
                        write_at(&mut cand, *at, data);
                    }
                }
                if !ok {
                    failure = Some(format!("after injected failure in `{}`: destination is neither the previous content nor a prefix of the operation's writes ({})", ops.last().unwrap(), first_diff(&real, &before)));
                }
                // bytes before s and beyond the image end are never touched
                let s = start as usize;
                let n = std::cmp::min(s, std::cmp::min(initial.len(), real.len()));
                if real[..n] != initial[..n] {
                    failure = Some("after injected failure: a byte before the starting position changed".into());
                }
                ops.push(format!("-> Err({e})"));
                break;
            }
        }
    }
    drop(dir);
    let calls = view.calls();
    let descriptor = fnv(&kinds) ^ fnv(format!("{start}/{init_len}/{mode:?}/{fault:?}/{count}/{pre}").as_bytes());
    Outcome { ops, calls, descriptor, failure, fault_hit }
}

pub fn run(rep: &mut Report, histories: u64, replay: Option<u64>) {
    rep.rule = "random histories (<= 40 ops) of grow / emit-directory-entry / flush on the real DirSection; destinations: plain, short-writing, EINTR-returning, failing (error or partial-store-then-error) at call j; start offsets {0,1,7,12,4095,4096,1e6}; pre-existing content shorter/longer than the image. Oracle: content-only file model compared after every call. distinct = hash(op-kind sequence, destination configuration); non-trivial = at least one flush or emit executed".into();
    let seeds: Vec<u64> = match replay {
        Some(s) => vec![s],
        None => (0..histories).map(|i| rep.seed.wrapping_mul(7_000_003).wrapping_add(i)).collect(),
    };
    crate::util::install_quiet_panic_hook();
    let results = crate::util::par_map(seeds.len() as u64, |i| {
        let s = seeds[i as usize];
        (s, std::panic::catch_unwind(|| run_history(s)).map_err(|p| (crate::util::panic_message(&p), crate::util::short_loc(&crate::util::last_panic_loc()))))
    });
    for (s, r) in results {
        match r {
            Ok(o) => {
                rep.count("destination_calls_checked", o.calls as u64);
                rep.count("operations", o.ops.len() as u64);
                if o.fault_hit {
                    rep.count("injected_faults_hit", 1);
                }
                rep.case(o.descriptor, o.ops.len() > 2);
                if let Some(f) = o.failure {
                    let sig = format!("C09 history {}", f.split(':').next().unwrap_or("").trim_start_matches(|c: char| c != ' ').trim());
                    let sig = if f.contains("differs from file model") { "C09 history destination differs from file model".to_string() } else if f.contains("injected failure") { "C09 history abort leaves foreign bytes".to_string() } else { sig };
                    rep.violation(&sig, json!({"history_seed": s, "message": f, "ops": o.ops, "replay_arg": s.to_string()}));
                } else if rep.samples.len() < 3 && o.ops.len() < 14 && o.ops.len() > 5 {
                    rep.sample(json!({"history_seed": s, "ops": o.ops}));
                }
            }
            Err((msg, loc)) => {
                rep.case(s, true);
                rep.violation(&format!("C09 panic at {loc}"), json!({"history_seed": s, "panic": msg, "replay_arg": s.to_string()}));
            }
        }
    }
    rep.require("destination_calls_checked", 1);
    if replay.is_none() {
        rep.require("injected_faults_hit", 1);
    }
    let _: Option<Value> = None;
}
