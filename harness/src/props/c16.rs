//! C16 — the image builder obeys its layout laws.
//!
//! Monitor: a trivial byte-vector reference model is driven in lock-step with the real
//! `Buffer` / `MemoryWriter` / `MemoryArrayWriter` / `write_string_to_location` through random
//! operation histories; after EVERY operation the whole buffer is compared with the model and
//! every returned location with (old length, serialized size).

use crate::report::Report;
use crate::rng::{fnv, Rng};
use minidump_writer::mem_writer::*;
use minidump_writer::minidump_cpu::RawContextCPU;
use minidump_writer::minidump_format::*;
use scroll::ctx::{SizeWith, TryIntoCtx};
use serde_json::json;

/// little-endian byte writer used to serialize every type BY HAND (independent of scroll)
#[derive(Default)]
pub struct W(pub Vec<u8>);
impl W {
    pub fn u8(&mut self, v: u8) -> &mut Self {
        self.0.push(v);
        self
    }
    pub fn u16(&mut self, v: u16) -> &mut Self {
        self.0.extend_from_slice(&[v as u8, (v >> 8) as u8]);
        self
    }
    pub fn u32(&mut self, v: u32) -> &mut Self {
        for i in 0..4 {
            self.0.push((v >> (8 * i)) as u8);
        }
        self
    }
    pub fn u64(&mut self, v: u64) -> &mut Self {
        for i in 0..8 {
            self.0.push((v >> (8 * i)) as u8);
        }
        self
    }
    pub fn u128(&mut self, v: u128) -> &mut Self {
        for i in 0..16 {
            self.0.push((v >> (8 * i)) as u8);
        }
        self
    }
    pub fn bytes(&mut self, b: &[u8]) -> &mut Self {
        self.0.extend_from_slice(b);
        self
    }
}

pub trait Elem: Sized + Clone {
    const NAME: &'static str;
    const SIZE: usize;
    fn gen(rng: &mut Rng) -> (Self, Vec<u8>);
}

fn loc(rng: &mut Rng, w: &mut W) -> MDLocationDescriptor {
    let l = MDLocationDescriptor {
        data_size: rng.u32(),
        rva: rng.u32(),
    };
    w.u32(l.data_size).u32(l.rva);
    l
}

macro_rules! prim {
    ($t:ty, $name:expr, $size:expr, $m:ident) => {
        impl Elem for $t {
            const NAME: &'static str = $name;
            const SIZE: usize = $size;
            fn gen(rng: &mut Rng) -> (Self, Vec<u8>) {
                let v = rng.interesting_u64() as $t;
                let mut w = W::default();
                w.$m(v);
                (v, w.0)
            }
        }
    };
}
prim!(u8, "u8", 1, u8);
prim!(u16, "u16", 2, u16);
prim!(u32, "u32", 4, u32);
prim!(u64, "u64", 8, u64);

impl Elem for MDLocationDescriptor {
    const NAME: &'static str = "location";
    const SIZE: usize = 8;
    fn gen(rng: &mut Rng) -> (Self, Vec<u8>) {
        let mut w = W::default();
        let l = loc(rng, &mut w);
        (l, w.0)
    }
}
impl Elem for MDMemoryDescriptor {
    const NAME: &'static str = "memory_descriptor";
    const SIZE: usize = 16;
    fn gen(rng: &mut Rng) -> (Self, Vec<u8>) {
        let mut w = W::default();
        let start = rng.interesting_u64();
        w.u64(start);
        let memory = loc(rng, &mut w);
        (
            MDMemoryDescriptor {
                start_of_memory_range: start,
                memory,
            },
            w.0,
        )
    }
}
impl Elem for MDRawDirectory {
    const NAME: &'static str = "directory";
    const SIZE: usize = 12;
    fn gen(rng: &mut Rng) -> (Self, Vec<u8>) {
        let mut w = W::default();
        let t = rng.u32();
        w.u32(t);
        let location = loc(rng, &mut w);
        (
            MDRawDirectory {
                stream_type: t,
                location,
            },
            w.0,
        )
    }
}
impl Elem for MDRawThread {
    const NAME: &'static str = "thread";
    const SIZE: usize = 48;
    fn gen(rng: &mut Rng) -> (Self, Vec<u8>) {
        let mut w = W::default();
        let (a, b, c, d, teb) = (rng.u32(), rng.u32(), rng.u32(), rng.u32(), rng.next());
        w.u32(a).u32(b).u32(c).u32(d).u64(teb);
        let start = rng.next();
        w.u64(start);
        let memory = loc(rng, &mut w);
        let thread_context = loc(rng, &mut w);
        (
            MDRawThread {
                thread_id: a,
                suspend_count: b,
                priority_class: c,
                priority: d,
                teb,
                stack: MDMemoryDescriptor {
                    start_of_memory_range: start,
                    memory,
                },
                thread_context,
            },
            w.0,
        )
    }
}
impl Elem for MDRawThreadName {
    const NAME: &'static str = "thread_name";
    const SIZE: usize = 12;
    fn gen(rng: &mut Rng) -> (Self, Vec<u8>) {
        let mut w = W::default();
        let (a, b) = (rng.u32(), rng.interesting_u64());
        w.u32(a).u64(b);
        (
            MDRawThreadName {
                thread_id: a,
                thread_name_rva: b,
            },
            w.0,
        )
    }
}
impl Elem for MDRawHeader {
    const NAME: &'static str = "header";
    const SIZE: usize = 32;
    fn gen(rng: &mut Rng) -> (Self, Vec<u8>) {
        let mut w = W::default();
        let f: Vec<u32> = (0..6).map(|_| rng.u32()).collect();
        let flags = rng.next();
        for x in &f {
            w.u32(*x);
        }
        w.u64(flags);
        (
            MDRawHeader {
                signature: f[0],
                version: f[1],
                stream_count: f[2],
                stream_directory_rva: f[3],
                checksum: f[4],
                time_date_stamp: f[5],
                flags,
            },
            w.0,
        )
    }
}
impl Elem for MDRawLinkMap {
    const NAME: &'static str = "link_map";
    const SIZE: usize = 20;
    fn gen(rng: &mut Rng) -> (Self, Vec<u8>) {
        let mut w = W::default();
        let (a, n, l) = (rng.next(), rng.u32(), rng.next());
        w.u64(a).u32(n).u64(l);
        (
            MDRawLinkMap {
                addr: a,
                name: n,
                ld: l,
            },
            w.0,
        )
    }
}
impl Elem for MDRawDebug {
    const NAME: &'static str = "dso_debug";
    const SIZE: usize = 36;
    fn gen(rng: &mut Rng) -> (Self, Vec<u8>) {
        let mut w = W::default();
        let (v, m, c, b, l, d) = (
            rng.u32(),
            rng.u32(),
            rng.u32(),
            rng.next(),
            rng.next(),
            rng.next(),
        );
        w.u32(v).u32(m).u32(c).u64(b).u64(l).u64(d);
        (
            MDRawDebug {
                version: v,
                map: m,
                dso_count: c,
                brk: b,
                ldbase: l,
                dynamic: d,
            },
            w.0,
        )
    }
}
impl Elem for MDMemoryInfo {
    const NAME: &'static str = "memory_info";
    const SIZE: usize = 48;
    fn gen(rng: &mut Rng) -> (Self, Vec<u8>) {
        let mut w = W::default();
        let (ba, ab, ap, a1, rs, st, pr, ty, a2) = (
            rng.next(),
            rng.next(),
            rng.u32(),
            rng.u32(),
            rng.next(),
            rng.u32(),
            rng.u32(),
            rng.u32(),
            rng.u32(),
        );
        w.u64(ba).u64(ab).u32(ap).u32(a1).u64(rs).u32(st).u32(pr).u32(ty).u32(a2);
        (
            MDMemoryInfo {
                base_address: ba,
                allocation_base: ab,
                allocation_protection: ap,
                __alignment1: a1,
                region_size: rs,
                state: st,
                protection: pr,
                _type: ty,
                __alignment2: a2,
            },
            w.0,
        )
    }
}
impl Elem for MDMemoryInfoList {
    const NAME: &'static str = "memory_info_list";
    const SIZE: usize = 16;
    fn gen(rng: &mut Rng) -> (Self, Vec<u8>) {
        let mut w = W::default();
        let (a, b, c) = (rng.u32(), rng.u32(), rng.next());
        w.u32(a).u32(b).u64(c);
        (
            MDMemoryInfoList {
                size_of_header: a,
                size_of_entry: b,
                number_of_entries: c,
            },
            w.0,
        )
    }
}
impl Elem for MDRawHandleDescriptor {
    const NAME: &'static str = "handle_descriptor";
    const SIZE: usize = 32;
    fn gen(rng: &mut Rng) -> (Self, Vec<u8>) {
        let mut w = W::default();
        let h = rng.next();
        let f: Vec<u32> = (0..6).map(|_| rng.u32()).collect();
        w.u64(h);
        for x in &f {
            w.u32(*x);
        }
        (
            MDRawHandleDescriptor {
                handle: h,
                type_name_rva: f[0],
                object_name_rva: f[1],
                attributes: f[2],
                granted_access: f[3],
                handle_count: f[4],
                pointer_count: f[5],
            },
            w.0,
        )
    }
}
impl Elem for MDRawHandleDataStream {
    const NAME: &'static str = "handle_data_stream";
    const SIZE: usize = 16;
    fn gen(rng: &mut Rng) -> (Self, Vec<u8>) {
        let mut w = W::default();
        let f: Vec<u32> = (0..4).map(|_| rng.u32()).collect();
        for x in &f {
            w.u32(*x);
        }
        (
            MDRawHandleDataStream {
                size_of_header: f[0],
                size_of_descriptor: f[1],
                number_of_descriptors: f[2],
                reserved: f[3],
            },
            w.0,
        )
    }
}
impl Elem for MDRawModule {
    const NAME: &'static str = "module";
    const SIZE: usize = 108;
    fn gen(rng: &mut Rng) -> (Self, Vec<u8>) {
        let mut w = W::default();
        let base = rng.next();
        let f: Vec<u32> = (0..4).map(|_| rng.u32()).collect();
        w.u64(base);
        for x in &f {
            w.u32(*x);
        }
        let v: Vec<u32> = (0..13).map(|_| rng.u32()).collect();
        for x in &v {
            w.u32(*x);
        }
        let cv = loc(rng, &mut w);
        let misc = loc(rng, &mut w);
        let r: Vec<u32> = (0..4).map(|_| rng.u32()).collect();
        for x in &r {
            w.u32(*x);
        }
        (
            MDRawModule {
                base_of_image: base,
                size_of_image: f[0],
                checksum: f[1],
                time_date_stamp: f[2],
                module_name_rva: f[3],
                version_info: MDVSFixedFileInfo {
                    signature: v[0],
                    struct_version: v[1],
                    file_version_hi: v[2],
                    file_version_lo: v[3],
                    product_version_hi: v[4],
                    product_version_lo: v[5],
                    file_flags_mask: v[6],
                    file_flags: v[7],
                    file_os: v[8],
                    file_type: v[9],
                    file_subtype: v[10],
                    file_date_hi: v[11],
                    file_date_lo: v[12],
                },
                cv_record: cv,
                misc_record: misc,
                reserved0: [r[0], r[1]],
                reserved1: [r[2], r[3]],
            },
            w.0,
        )
    }
}
impl Elem for MDRawExceptionStream {
    const NAME: &'static str = "exception_stream";
    const SIZE: usize = 168;
    fn gen(rng: &mut Rng) -> (Self, Vec<u8>) {
        let mut w = W::default();
        let (tid, al) = (rng.u32(), rng.u32());
        let (code, flags, rec, addr, np, al2) = (
            rng.u32(),
            rng.u32(),
            rng.next(),
            rng.next(),
            rng.u32(),
            rng.u32(),
        );
        let mut info = [0u64; 15];
        for x in info.iter_mut() {
            *x = rng.next();
        }
        w.u32(tid).u32(al).u32(code).u32(flags).u64(rec).u64(addr).u32(np).u32(al2);
        for x in &info {
            w.u64(*x);
        }
        let tc = loc(rng, &mut w);
        (
            MDRawExceptionStream {
                thread_id: tid,
                __align: al,
                exception_record: MDException {
                    exception_code: code,
                    exception_flags: flags,
                    exception_record: rec,
                    exception_address: addr,
                    number_parameters: np,
                    __align: al2,
                    exception_information: info,
                },
                thread_context: tc,
            },
            w.0,
        )
    }
}
impl Elem for MDRawSystemInfo {
    const NAME: &'static str = "system_info";
    const SIZE: usize = 56;
    fn gen(rng: &mut Rng) -> (Self, Vec<u8>) {
        let mut w = W::default();
        let (a, b, c, n, p) = (rng.u16(), rng.u16(), rng.u16(), rng.u8(), rng.u8());
        let f: Vec<u32> = (0..5).map(|_| rng.u32()).collect();
        let (s, r2) = (rng.u16(), rng.u16());
        let cpu = rng.bytes(24);
        w.u16(a).u16(b).u16(c).u8(n).u8(p);
        for x in &f {
            w.u32(*x);
        }
        w.u16(s).u16(r2).bytes(&cpu);
        let mut info: MDRawSystemInfo = unsafe { std::mem::zeroed() };
        info.processor_architecture = a;
        info.processor_level = b;
        info.processor_revision = c;
        info.number_of_processors = n;
        info.product_type = p;
        info.major_version = f[0];
        info.minor_version = f[1];
        info.build_number = f[2];
        info.platform_id = f[3];
        info.csd_version_rva = f[4];
        info.suite_mask = s;
        info.reserved2 = r2;
        info.cpu.data.copy_from_slice(&cpu);
        (info, w.0)
    }
}
impl Elem for RawContextCPU {
    const NAME: &'static str = "context_amd64";
    const SIZE: usize = 1232;
    fn gen(rng: &mut Rng) -> (Self, Vec<u8>) {
        let mut w = W::default();
        let mut c = RawContextCPU::default();
        let h: Vec<u64> = (0..6).map(|_| rng.next()).collect();
        c.p1_home = h[0];
        c.p2_home = h[1];
        c.p3_home = h[2];
        c.p4_home = h[3];
        c.p5_home = h[4];
        c.p6_home = h[5];
        for x in &h {
            w.u64(*x);
        }
        c.context_flags = rng.u32();
        c.mx_csr = rng.u32();
        w.u32(c.context_flags).u32(c.mx_csr);
        c.cs = rng.u16();
        c.ds = rng.u16();
        c.es = rng.u16();
        c.fs = rng.u16();
        c.gs = rng.u16();
        c.ss = rng.u16();
        c.eflags = rng.u32();
        w.u16(c.cs).u16(c.ds).u16(c.es).u16(c.fs).u16(c.gs).u16(c.ss).u32(c.eflags);
        let d: Vec<u64> = (0..6).map(|_| rng.next()).collect();
        c.dr0 = d[0];
        c.dr1 = d[1];
        c.dr2 = d[2];
        c.dr3 = d[3];
        c.dr6 = d[4];
        c.dr7 = d[5];
        for x in &d {
            w.u64(*x);
        }
        let g: Vec<u64> = (0..17).map(|_| rng.next()).collect();
        c.rax = g[0];
        c.rcx = g[1];
        c.rdx = g[2];
        c.rbx = g[3];
        c.rsp = g[4];
        c.rbp = g[5];
        c.rsi = g[6];
        c.rdi = g[7];
        c.r8 = g[8];
        c.r9 = g[9];
        c.r10 = g[10];
        c.r11 = g[11];
        c.r12 = g[12];
        c.r13 = g[13];
        c.r14 = g[14];
        c.r15 = g[15];
        c.rip = g[16];
        for x in &g {
            w.u64(*x);
        }
        let fs = rng.bytes(512);
        c.float_save.copy_from_slice(&fs);
        w.bytes(&fs);
        for i in 0..26 {
            let v = ((rng.next() as u128) << 64) | rng.next() as u128;
            c.vector_register[i] = v;
            w.u128(v);
        }
        let t: Vec<u64> = (0..6).map(|_| rng.next()).collect();
        c.vector_control = t[0];
        c.debug_control = t[1];
        c.last_branch_to_rip = t[2];
        c.last_branch_from_rip = t[3];
        c.last_exception_to_rip = t[4];
        c.last_exception_from_rip = t[5];
        for x in &t {
            w.u64(*x);
        }
        (c, w.0)
    }
}

type Pending = Box<dyn FnMut(&mut Buffer, &mut Vec<u8>, &mut Rng) -> Result<String, String>>;

struct State {
    buf: Buffer,
    model: Vec<u8>,
    pending: Vec<Pending>,
    trace: Vec<String>,
}

fn check_loc(what: &str, l: MDLocationDescriptor, pos: usize, size: usize) -> Result<(), String> {
    if l.rva as usize != pos || l.data_size as usize != size {
        return Err(format!(
            "{what}: location (rva={}, size={}) != (old length {pos}, serialized size {size})",
            l.rva, l.data_size
        ));
    }
    Ok(())
}

fn op_alloc<T>(st: &mut State) -> Result<String, String>
where
    T: Elem + TryIntoCtx<scroll::Endian, Error = scroll::Error> + SizeWith<scroll::Endian> + 'static,
{
    let pos = st.model.len();
    let mut w = MemoryWriter::<T>::alloc(&mut st.buf).map_err(|e| format!("alloc failed: {e}"))?;
    st.model.resize(pos + T::SIZE, 0);
    check_loc("alloc", w.location(), pos, T::SIZE)?;
    if w.position as usize != pos || w.size != T::SIZE {
        return Err(format!("alloc: position/size fields {} {} != {pos} {}", w.position, w.size, T::SIZE));
    }
    st.pending.push(Box::new(move |buf, model, rng| {
        let (v, bytes) = T::gen(rng);
        w.set_value(buf, v).map_err(|e| format!("set_value failed: {e}"))?;
        model[pos..pos + T::SIZE].copy_from_slice(&bytes);
        check_loc("set_value", w.location(), pos, T::SIZE)?;
        Ok(format!("set_value<{}>@{pos}", T::NAME))
    }));
    Ok(format!("alloc<{}>", T::NAME))
}

fn op_alloc_with_val<T>(st: &mut State, rng: &mut Rng) -> Result<String, String>
where
    T: Elem + TryIntoCtx<scroll::Endian, Error = scroll::Error> + SizeWith<scroll::Endian> + 'static,
{
    let pos = st.model.len();
    let (v, bytes) = T::gen(rng);
    if bytes.len() != T::SIZE {
        return Err(format!("harness: hand serialization of {} has {} bytes", T::NAME, bytes.len()));
    }
    let w = MemoryWriter::<T>::alloc_with_val(&mut st.buf, v).map_err(|e| format!("alloc_with_val failed: {e}"))?;
    st.model.extend_from_slice(&bytes);
    check_loc("alloc_with_val", w.location(), pos, T::SIZE)?;
    if w.position as usize != pos || w.size != T::SIZE {
        return Err(format!("alloc_with_val: position/size fields {} {} != {pos} {}", w.position, w.size, T::SIZE));
    }
    Ok(format!("alloc_with_val<{}>", T::NAME))
}

fn op_alloc_array<T>(st: &mut State, rng: &mut Rng) -> Result<String, String>
where
    T: Elem + TryIntoCtx<scroll::Endian, Error = scroll::Error> + SizeWith<scroll::Endian> + 'static,
{
    let pos = st.model.len();
    let n = match rng.below(if cfg!(miri) { 6 } else { 14 }) {
        0 => 0,
        1 => 1,
        13 => *rng.pick(&[33usize, 65, 257, 513]),
        _ => rng.range(2, 9) as usize,
    };
    let w = MemoryArrayWriter::<T>::alloc_array(&mut st.buf, n).map_err(|e| format!("alloc_array failed: {e}"))?;
    st.model.resize(pos + n * T::SIZE, 0);
    check_loc("alloc_array", w.location(), pos, n * T::SIZE)?;
    if w.position as usize != pos {
        return Err(format!("alloc_array: position {} != {pos}", w.position));
    }
    if n > 0 {
        let w = std::rc::Rc::new(std::cell::RefCell::new(w));
        // several fill-later operations on random valid indices, some repeated
        for _ in 0..rng.range(1, (n as u64) + 1) {
            let w = w.clone();
            st.pending.push(Box::new(move |buf, model, rng| {
                let i = rng.usize_below(n);
                let (v, bytes) = T::gen(rng);
                let mut w = w.borrow_mut();
                w.set_value_at(buf, v, i).map_err(|e| format!("set_value_at failed: {e}"))?;
                let at = pos + i * T::SIZE;
                model[at..at + T::SIZE].copy_from_slice(&bytes);
                check_loc("location_of_index", w.location_of_index(i), at, T::SIZE)?;
                check_loc("array location after fill", w.location(), pos, n * T::SIZE)?;
                Ok(format!("set_value_at<{}>[{i}/{n}]@{pos}", T::NAME))
            }));
        }
    }
    Ok(format!("alloc_array<{}>({n})", T::NAME))
}

fn op_alloc_from_iter<T>(st: &mut State, rng: &mut Rng) -> Result<String, String>
where
    T: Elem + TryIntoCtx<scroll::Endian, Error = scroll::Error> + SizeWith<scroll::Endian> + 'static,
{
    let pos = st.model.len();
    let n = if cfg!(miri) { rng.below(7) as usize } else { match rng.below(12) { 0 => *rng.pick(&[16usize, 33, 64, 65, 257, 513]), _ => rng.below(7) as usize } };
    let mut vals = Vec::new();
    let mut bytes = Vec::new();
    for _ in 0..n {
        let (v, b) = T::gen(rng);
        vals.push(v);
        bytes.extend_from_slice(&b);
    }
    let w = MemoryArrayWriter::<T>::alloc_from_iter(&mut st.buf, vals).map_err(|e| format!("alloc_from_iter failed: {e}"))?;
    st.model.extend_from_slice(&bytes);
    check_loc("alloc_from_iter", w.location(), pos, n * T::SIZE)?;
    for i in 0..n {
        check_loc("location_of_index", w.location_of_index(i), pos + i * T::SIZE, T::SIZE)?;
    }
    Ok(format!("alloc_from_iter<{}>({n})", T::NAME))
}

fn op_alloc_from_array<T>(st: &mut State, rng: &mut Rng) -> Result<String, String>
where
    T: Elem + Copy + TryIntoCtx<scroll::Endian, Error = scroll::Error> + SizeWith<scroll::Endian> + 'static,
{
    let pos = st.model.len();
    // mostly small arrays, now and then one that spans several internal blocks / pages
    let n = if cfg!(miri) { rng.below(7) as usize } else { match rng.below(10) { 0 => *rng.pick(&[16usize, 17, 32, 33, 64, 65, 257, 513, 1000, 4097]), _ => rng.below(7) as usize } };
    let mut vals = Vec::new();
    let mut bytes = Vec::new();
    for _ in 0..n {
        let (v, b) = T::gen(rng);
        vals.push(v);
        bytes.extend_from_slice(&b);
    }
    let w = MemoryArrayWriter::<T>::alloc_from_array(&mut st.buf, &vals).map_err(|e| format!("alloc_from_array failed: {e}"))?;
    st.model.extend_from_slice(&bytes);
    check_loc("alloc_from_array", w.location(), pos, n * T::SIZE)?;
    Ok(format!("alloc_from_array<{}>({n})", T::NAME))
}

pub fn gen_string(rng: &mut Rng) -> String {
    let n = match rng.below(12) {
        0 => 0,
        1 => 1,
        2 if !cfg!(miri) => 10_000,
        // lengths around powers of two: a fixed-size staging buffer or a length cast shows there
        3 if !cfg!(miri) => *rng.pick(&[127usize, 128, 129, 255, 256, 257, 511, 512, 513, 1023, 1024, 4095, 4096, 4097]),
        _ => rng.range(1, if cfg!(miri) { 10 } else { 40 }) as usize,
    };
    let mut s = String::new();
    // composition for the boundary lengths: only characters outside the BMP (units = 2 x chars), only
    // ASCII (units = chars), or ASCII with a single astral character (units = chars + 1)
    if n >= 127 && n != 10_000 {
        let mode = rng.below(3);
        let astral_at = rng.usize_below(n);
        for i in 0..n {
            let astral = mode == 0 || (mode == 2 && i == astral_at);
            let cp = if astral { rng.range(0x1F300, 0x1FAFF) as u32 } else { rng.range(0x21, 0x7e) as u32 };
            s.push(char::from_u32(cp).unwrap_or('x'));
        }
        return s;
    }
    for _ in 0..n {
        let cp = match rng.below(10) {
            0 => rng.range(0x20, 0x7e) as u32,
            1 => rng.range(0x80, 0x7ff) as u32,
            2 => *rng.pick(&[0xD7FFu32, 0xE000, 0xFFFF, 0xFFFE, 0xFEFF, 0x10000, 0x10FFFF, 0, 1, 0x7F, 0x80]),
            3 => rng.range(0x10000, 0x10FFFF) as u32,
            4 => rng.range(0x800, 0xD7FF) as u32,
            5 => rng.range(0xE000, 0xFFFF) as u32,
            6 => rng.range(0x1F300, 0x1FAFF) as u32,
            _ => rng.range(0x20, 0x7e) as u32,
        };
        if let Some(c) = char::from_u32(cp) {
            s.push(c);
        }
    }
    s
}

/// own UTF-16 encoder (not `encode_utf16`)
pub fn utf16_units(s: &str) -> Vec<u16> {
    let mut v = Vec::new();
    for c in s.chars() {
        let cp = c as u32;
        if cp < 0x10000 {
            v.push(cp as u16);
        } else {
            let x = cp - 0x10000;
            v.push(0xD800 + (x >> 10) as u16);
            v.push(0xDC00 + (x & 0x3ff) as u16);
        }
    }
    v
}

fn op_string(st: &mut State, rng: &mut Rng) -> Result<String, String> {
    let pos = st.model.len();
    let text = gen_string(rng);
    let l = write_string_to_location(&mut st.buf, &text).map_err(|e| format!("write_string failed: {e}"))?;
    let units = utf16_units(&text);
    let mut w = W::default();
    w.u32((units.len() * 2) as u32);
    for u in &units {
        w.u16(*u);
    }
    st.model.extend_from_slice(&w.0);
    check_loc("write_string_to_location", l, pos, 4 + units.len() * 2)?;
    // decode back from the REAL buffer
    let b: &[u8] = &st.buf;
    if b.len() < pos + 4 {
        return Err("string: buffer too short".into());
    }
    let len = u32::from_le_bytes(b[pos..pos + 4].try_into().unwrap()) as usize;
    if len % 2 != 0 || b.len() < pos + 4 + len {
        return Err(format!("string: stored byte length {len} odd or beyond buffer"));
    }
    let got: Vec<u16> = b[pos + 4..pos + 4 + len]
        .chunks(2)
        .map(|c| u16::from_le_bytes([c[0], c[1]]))
        .collect();
    match String::from_utf16(&got) {
        Ok(s) if s == text => {}
        other => return Err(format!("string does not decode back: {:?} vs {:?}", other.map(|s| s.chars().take(20).collect::<String>()), text.chars().take(20).collect::<String>())),
    }
    Ok(format!("string(chars={},units={})", text.chars().count(), units.len()))
}

macro_rules! dispatch_type {
    ($rng:expr, $f:ident, $($arg:expr),*) => {
        match $rng.below(19) {
            0 => $f::<u8>($($arg),*),
            1 => $f::<u16>($($arg),*),
            2 => $f::<u32>($($arg),*),
            3 => $f::<u64>($($arg),*),
            4 => $f::<MDLocationDescriptor>($($arg),*),
            5 => $f::<MDMemoryDescriptor>($($arg),*),
            6 => $f::<MDRawDirectory>($($arg),*),
            7 => $f::<MDRawThread>($($arg),*),
            8 => $f::<MDRawThreadName>($($arg),*),
            9 => $f::<MDRawHeader>($($arg),*),
            10 => $f::<MDRawLinkMap>($($arg),*),
            11 => $f::<MDRawDebug>($($arg),*),
            12 => $f::<MDMemoryInfo>($($arg),*),
            13 => $f::<MDMemoryInfoList>($($arg),*),
            14 => $f::<MDRawHandleDescriptor>($($arg),*),
            15 => $f::<MDRawHandleDataStream>($($arg),*),
            16 => $f::<MDRawModule>($($arg),*),
            17 => $f::<MDRawExceptionStream>($($arg),*),
            _ => {
                if $rng.chance(1, 2) { $f::<MDRawSystemInfo>($($arg),*) } else { $f::<RawContextCPU>($($arg),*) }
            }
        }
    };
}

fn step(st: &mut State, rng: &mut Rng) -> Result<String, String> {
    let kind = rng.below(10);
    match kind {
        0 => dispatch_type!(rng, op_alloc, st),
        1 => dispatch_type!(rng, op_alloc_with_val, st, rng),
        2 => dispatch_type!(rng, op_alloc_array, st, rng),
        3 => dispatch_type!(rng, op_alloc_from_iter, st, rng),
        4 => match rng.below(6) {
            0 => op_alloc_from_array::<u8>(st, rng),
            1 => op_alloc_from_array::<u16>(st, rng),
            2 => op_alloc_from_array::<u32>(st, rng),
            3 => op_alloc_from_array::<u64>(st, rng),
            4 => op_alloc_from_array::<MDMemoryDescriptor>(st, rng),
            _ => op_alloc_from_array::<MDLocationDescriptor>(st, rng),
        },
        5 => {
            let pos = st.model.len();
            let n = *rng.pick(&[0usize, 1, 2, 7, 8, 9, 255, 256, 4097]);
            let n = if rng.chance(1, 2) { rng.usize_below(n + 1) } else { n };
            let b = rng.bytes(n);
            let w = MemoryArrayWriter::<u8>::write_bytes(&mut st.buf, &b);
            st.model.extend_from_slice(&b);
            check_loc("write_bytes", w.location(), pos, n)?;
            Ok(format!("write_bytes({n})"))
        }
        6 => op_string(st, rng),
        7 => {
            let n = rng.usize_below(64);
            let b = rng.bytes(n);
            st.buf.write_all(&b);
            st.model.extend_from_slice(&b);
            Ok(format!("write_all({n})"))
        }
        _ => {
            if st.pending.is_empty() {
                return dispatch_type!(rng, op_alloc_with_val, st, rng);
            }
            let i = rng.usize_below(st.pending.len());
            // a slot may be filled again later: keep it with probability 1/3
            let State { buf, model, pending, .. } = st;
            let r = (pending[i])(buf, model, rng);
            if !rng.chance(1, 3) {
                drop(pending.swap_remove(i));
            }
            r
        }
    }
}

fn compare(st: &State) -> Result<(), String> {
    let b: &[u8] = &st.buf;
    if st.buf.position() != st.model.len() as u64 {
        return Err(format!("buffer.position()={} but model length {}", st.buf.position(), st.model.len()));
    }
    if b != &st.model[..] {
        let n = std::cmp::min(b.len(), st.model.len());
        let first = (0..n).find(|&i| b[i] != st.model[i]).unwrap_or(n);
        return Err(format!(
            "buffer differs from model: lengths {} vs {}, first differing offset {first}",
            b.len(),
            st.model.len()
        ));
    }
    Ok(())
}

/// Runs one history; returns Err((op index, message, trace)) on divergence.
pub fn run_history(seed: u64, max_ops: usize) -> (usize, Result<Vec<String>, (String, Vec<String>)>, u64) {
    let mut rng = Rng::new(seed);
    let nops = rng.range(1, max_ops as u64) as usize;
    let mut st = State {
        buf: Buffer::with_capacity(if rng.chance(1, 2) { 0 } else { rng.usize_below(4096) }),
        model: Vec::new(),
        pending: Vec::new(),
        trace: Vec::new(),
    };
    let mut kinds = 0u64;
    for _ in 0..nops {
        let r = step(&mut st, &mut rng);
        match r {
            Ok(name) => {
                kinds ^= fnv(name.split('(').next().unwrap_or("").as_bytes());
                st.trace.push(name);
            }
            Err(e) => {
                st.trace.push(format!("FAILED: {e}"));
                return (st.trace.len(), Err((e, st.trace)), kinds);
            }
        }
        if let Err(e) = compare(&st) {
            return (st.trace.len(), Err((e, st.trace)), kinds);
        }
    }
    // drain the remaining fill-later operations
    while let Some(mut p) = st.pending.pop() {
        match p(&mut st.buf, &mut st.model, &mut rng) {
            Ok(name) => st.trace.push(name),
            Err(e) => return (st.trace.len(), Err((e, st.trace)), kinds),
        }
        if let Err(e) = compare(&st) {
            return (st.trace.len(), Err((e, st.trace)), kinds);
        }
    }
    // into Vec<u8>
    let v: Vec<u8> = st.buf.into();
    if v != st.model {
        return (st.trace.len(), Err(("Vec::from(buffer) differs from model".into(), st.trace)), kinds);
    }
    (st.trace.len(), Ok(st.trace), fnv(&v) ^ kinds)
}

pub fn run(rep: &mut Report, histories: u64, replay: Option<u64>) {
    rep.rule = "random histories (1..60 ops) over alloc/alloc_with_val/set_value/alloc_array/set_value_at/alloc_from_array/alloc_from_iter/write_bytes/write_all/write_string_to_location on 20 element types, every op followed by a full buffer-vs-model comparison; a case is one history, distinct by hash of (op-name sequence, final bytes), non-trivial when it has >= 3 ops and a non-empty buffer".into();
    let seeds: Vec<u64> = match replay {
        Some(s) => vec![s],
        None => (0..histories).map(|i| rep.seed.wrapping_mul(1_000_003).wrapping_add(i)).collect(),
    };
    crate::util::install_quiet_panic_hook();
    let results = crate::util::par_map(seeds.len() as u64, |i| {
        let s = seeds[i as usize];
        (s, std::panic::catch_unwind(|| run_history(s, if cfg!(miri) { 14 } else { 60 })).map_err(|p| (crate::util::panic_message(&p), crate::util::short_loc(&crate::util::last_panic_loc()))))
    });
    for (s, r) in results {
        match r {
            Ok((ops, Ok(trace), h)) => {
                rep.count("operations_checked", ops as u64);
                rep.case(h, ops >= 3);
                if rep.samples.len() < 3 && (5..=25).contains(&ops) {
                    rep.sample(json!({"history_seed": s, "ops": trace}));
                }
            }
            Ok((ops, Err((msg, trace)), _)) => {
                rep.case(s, true);
                rep.count("operations_checked", ops as u64);
                let tail: Vec<&String> = trace.iter().rev().take(12).rev().collect();
                rep.violation(
                    &format!("C16 layout-law {}", msg.split(':').next().unwrap_or("")),
                    json!({"history_seed": s, "message": msg, "last_ops": tail, "replay_arg": s.to_string()}),
                );
            }
            Err((msg, loc)) => {
                rep.case(s, true);
                rep.violation(&format!("C16 panic in image builder at {loc}"), json!({"history_seed": s, "panic": msg, "replay_arg": s.to_string()}));
            }
        }
    }
    rep.require("operations_checked", 1);
}
