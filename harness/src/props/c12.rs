//! C12 — stack sanitization lets only pointers and small integers survive.
//!
//! Direct level: the real `PtraceDumper::sanitize_stack_copy` on a dumper whose public `mappings`
//! are replaced by generated layouts, against a direct reference classifier (linear scan, no
//! bitmap, no cache). Live level: sanitized dumps of sentinel threads judged word by word against
//! /proc/<pid>/mem and the checker's own parse of /proc/<pid>/maps.

use crate::report::Report;
use crate::rng::{fnv, Rng};
use crate::target::Target;
use minidump_writer::maps_reader::{MappingInfo, SystemMappingInfo};
use minidump_writer::ptrace_dumper::PtraceDumper;
use procfs_core::process::MMPermissions;
use serde_json::json;

pub const SENTINEL: u64 = 0x0defaced0defaced;

#[derive(Clone, Debug)]
pub struct M {
    pub start: u64,
    pub end: u64,
    pub exec: bool,
}

/// The reference classifier: expected output for (mappings, stack mapping, input, sp_offset)
pub fn reference(maps: &[M], stack_map: Option<&M>, input: &[u8], sp_offset: usize) -> Vec<u8> {
    let mut out = input.to_vec();
    let len = out.len();
    let off = (sp_offset.saturating_add(7)) & !7usize;
    if off >= len {
        out.iter_mut().for_each(|b| *b = 0);
        return out;
    }
    out[..off].iter_mut().for_each(|b| *b = 0);
    let mut p = off;
    while p + 8 <= len {
        let w = u64::from_le_bytes(out[p..p + 8].try_into().unwrap());
        let s = w as i64;
        let small = (-4096..=4096).contains(&s);
        let in_stack = stack_map.map(|m| m.start <= w && w < m.end).unwrap_or(false);
        let in_exec = maps.iter().any(|m| m.exec && m.start <= w && w < m.end);
        if !(small || in_stack || in_exec) {
            out[p..p + 8].copy_from_slice(&SENTINEL.to_le_bytes());
        }
        p += 8;
    }
    out[p..].iter_mut().for_each(|b| *b = 0);
    out
}

fn to_mapping(m: &M, name: Option<&str>) -> MappingInfo {
    MappingInfo {
        start_address: m.start as usize,
        size: (m.end - m.start) as usize,
        system_mapping_info: SystemMappingInfo { start_address: m.start as usize, end_address: m.end as usize },
        offset: 0,
        // (every third executable mapping is EXECUTE-ONLY, `--xp`: execute-only JIT or pkey-protected
        // code, the legacy vsyscall page - executable all the same)
        permissions: if m.exec && (m.start >> 12) % 3 == 0 { MMPermissions::EXECUTE | MMPermissions::PRIVATE } else if m.exec { MMPermissions::READ | MMPermissions::EXECUTE | MMPermissions::PRIVATE } else { MMPermissions::READ | MMPermissions::WRITE | MMPermissions::PRIVATE },
        name: name.map(|s| s.into()),
    }
}

pub struct Case {
    pub maps: Vec<M>,
    pub stack: Option<M>,
    pub order: Vec<usize>,
    pub input: Vec<u8>,
    pub stack_pointer: u64,
    pub sp_offset: usize,
}

pub fn gen_case(rng: &mut Rng) -> Case {
    const PAGE: u64 = 4096;
    let n = match rng.below(6) {
        0 => 0,
        1 => rng.range(1, 3),
        2 => rng.range(200, 300),
        _ => rng.range(3, 40),
    } as usize;
    let mut maps = Vec::new();
    let mut at: u64 = *rng.pick(&[0x10000u64, 0x40_0000, 0x5555_5555_4000, 0x7f00_0000_0000, 0x1_0000_0000 - 0x3000]);
    for _ in 0..n {
        at += match rng.below(6) {
            0 => 0,
            1 => PAGE,
            2 => (0x20_0000 - (at % 0x20_0000)).saturating_sub(PAGE * rng.below(3)), // land just before a 2 MiB bucket boundary
            3 => 0x1_0000_0000,                                          // alias modulo the 2^11 buckets
            _ => PAGE * rng.range(1, 600),
        };
        let size = match rng.below(8) {
            0 => 8u64 << 30,
            1 => 0x20_0000,
            2 => 0x20_0000 + PAGE,
            3 => PAGE * rng.range(1, 5000),
            _ => PAGE * rng.range(1, 8),
        };
        if at.checked_add(size).map(|e| e > 0x7fff_ffff_f000).unwrap_or(true) {
            break;
        }
        maps.push(M { start: at, end: at + size, exec: rng.chance(2, 5) });
        at += size;
    }
    // choose the stack mapping among the non-executable mappings (or none)
    let stack_idx = if !maps.is_empty() && rng.chance(5, 6) { Some(rng.usize_below(maps.len())) } else { None };
    let stack = stack_idx.map(|i| maps[i].clone());
    let mut order: Vec<usize> = (0..maps.len()).collect();
    if rng.chance(1, 3) {
        rng.shuffle(&mut order);
    }
    let len = match rng.below(6) {
        0 => 0,
        1 => rng.range(1, 17),
        2 => 4096,
        3 => rng.range(2040, 2056),
        _ => rng.range(1, 600),
    } as usize;
    let sp_offset = match rng.below(8) {
        0 => len + rng.usize_below(17),
        1 => len,
        2 => len.saturating_sub(rng.usize_below(9)),
        3 => 0,
        _ => rng.usize_below(len + 1),
    };
    let stack_pointer = match &stack {
        Some(s) => s.start + rng.below(s.end - s.start),
        None => rng.next() >> 17,
    };
    // words
    let mut input = Vec::with_capacity(len);
    let mut last_map: Option<usize> = None;
    while input.len() < len {
        let w: u64 = match rng.below(12) {
            0 => rng.below(4098),
            1 => (-(rng.below(4099) as i64)) as u64,
            2 | 3 if !maps.is_empty() => {
                let i = rng.usize_below(maps.len());
                last_map = Some(i);
                let m = &maps[i];
                *rng.pick(&[m.start, m.start.wrapping_sub(1), m.start + 1, m.end - 1, m.end, m.end + 1, m.start + (m.end - m.start) / 2])
            }
            4 if last_map.is_some() => {
                // stress the last-hit cache: a value just outside / inside the previously hit mapping
                let m = &maps[last_map.unwrap()];
                *rng.pick(&[m.end, m.end - 8, m.start.wrapping_sub(8), m.start])
            }
            5 => match &stack {
                Some(s) => s.start + rng.below(s.end - s.start),
                None => rng.next(),
            },
            6 => SENTINEL,
            7 => rng.next() & 0x7fff_ffff_ffff,
            8 if !maps.is_empty() => {
                // same 2 MiB-bucket-modulo-2048 as an executable mapping but far away
                let m = rng.pick(&maps);
                m.start.wrapping_add(0x1_0000_0000 * rng.range(1, 5))
            }
            9 => *rng.pick(&[4096u64, 4097, (-4096i64) as u64, (-4097i64) as u64, u64::MAX, 1 << 63, (1 << 63) - 1]),
            _ => rng.next(),
        };
        input.extend_from_slice(&w.to_le_bytes());
    }
    input.truncate(len);
    Case { maps, stack, order, input, stack_pointer, sp_offset }
}

pub struct DirectEnv {
    pub child: std::process::Child,
    pub dumper: PtraceDumper,
}

impl DirectEnv {
    pub fn new() -> Result<Self, String> {
        let child = std::process::Command::new(crate::target::target_bin())
            .arg("idle")
            .stdin(std::process::Stdio::null())
            .stdout(std::process::Stdio::null())
            .stderr(std::process::Stdio::null())
            .spawn()
            .map_err(|e| e.to_string())?;
        let dumper = PtraceDumper::new_report_soft_errors(child.id() as i32, std::time::Duration::from_millis(200), Default::default(), error_graph::strategy::DontCare).map_err(|e| format!("{e:?}"))?;
        Ok(DirectEnv { child, dumper })
    }
}
impl Drop for DirectEnv {
    fn drop(&mut self) {
        let _ = self.child.kill();
        let _ = self.child.wait();
    }
}

fn describe(c: &Case, got: &Result<Vec<u8>, String>, exp: &[u8]) -> serde_json::Value {
    let first = match got {
        Ok(g) => (0..std::cmp::min(g.len(), exp.len())).find(|&i| g[i] != exp[i]),
        Err(_) => None,
    };
    let word = first.map(|i| i & !7);
    json!({
        "mappings": c.maps.len(),
        "stack_mapping": c.stack.as_ref().map(|s| format!("{:x}-{:x}", s.start, s.end)),
        "len": c.input.len(),
        "sp_offset": c.sp_offset,
        "first_difference_at": first,
        "input_word": word.and_then(|w| c.input.get(w..w + 8)).map(|b| format!("{:#x}", u64::from_le_bytes(b.try_into().unwrap()))),
        "got_word": word.and_then(|w| got.as_ref().ok().and_then(|g| g.get(w..w + 8).map(|b| format!("{:#x}", u64::from_le_bytes(b.try_into().unwrap()))))),
        "expected_word": word.and_then(|w| exp.get(w..w + 8)).map(|b| format!("{:#x}", u64::from_le_bytes(b.try_into().unwrap()))),
        "error": got.as_ref().err(),
    })
}

fn classify(c: &Case, got: &Result<Vec<u8>, String>, exp: &[u8]) -> Option<String> {
    match got {
        Err(e) if e.starts_with("panic") => Some(format!("C12 sanitize panic ({})", if ((c.sp_offset + 7) & !7) > c.input.len() { "offset beyond region length" } else { "other" })),
        Err(_) => Some("C12 sanitize returned an error".into()),
        Ok(g) if g.len() != exp.len() => Some("C12 sanitize changed the region length".into()),
        Ok(g) if g == exp => None,
        Ok(g) => {
            let i = (0..g.len()).find(|&i| g[i] != exp[i]).unwrap();
            let off = (c.sp_offset + 7) & !7;
            if i < off {
                return Some("C12 sanitize non-zero byte below the stack pointer".into());
            }
            let w = i & !7;
            if w + 8 > g.len() {
                return Some("C12 sanitize trailing partial word not zeroed".into());
            }
            let inw = u64::from_le_bytes(c.input[w..w + 8].try_into().unwrap());
            let expw = u64::from_le_bytes(exp[w..w + 8].try_into().unwrap());
            let gotw = u64::from_le_bytes(g[w..w + 8].try_into().unwrap());
            if expw == inw {
                let s = inw as i64;
                if (-4096..=4096).contains(&s) {
                    Some(format!("C12 sanitize qualifying small integer replaced ({})", if s < 0 { "negative" } else { "non-negative" }))
                } else {
                    Some("C12 sanitize qualifying pointer replaced".into())
                }
            } else if gotw == inw {
                Some("C12 sanitize non-qualifying word survived".into())
            } else {
                Some("C12 sanitize word replaced by something other than the sentinel".into())
            }
        }
    }
}

pub fn run_direct(rep: &mut Report, cases: u64) {
    crate::util::install_quiet_panic_hook();
    let seed = rep.seed;
    let nthreads = crate::util::threads() as u64;
    let per = cases.div_ceil(nthreads);
    let results = crate::util::par_map(nthreads, |t| {
        let mut out: Vec<(u64, bool, Option<(String, serde_json::Value)>, u64)> = Vec::new();
        let mut env = match DirectEnv::new() {
            Ok(e) => e,
            Err(e) => {
                out.push((0, false, Some(("HARNESS cannot create dumper".into(), json!({"error": e}))), 0));
                return out;
            }
        };
        let mut rng = Rng::new(seed.wrapping_mul(1_000_033).wrapping_add(t));
        for _ in 0..per {
            let c = gen_case(&mut rng);
            env.dumper.mappings = c.order.iter().map(|&i| to_mapping(&c.maps[i], if c.maps[i].exec { Some("/lib/x.so") } else { None })).collect();
            // the thread's own stack mapping is the mapping that contains the stack pointer
            let stack_map = c.maps.iter().find(|m| m.start <= c.stack_pointer && c.stack_pointer < m.end);
            let exp = reference(&c.maps, stack_map, &c.input, c.sp_offset);
            let mut buf = c.input.clone();
            let r = std::panic::catch_unwind(std::panic::AssertUnwindSafe(|| env.dumper.sanitize_stack_copy(&mut buf, c.stack_pointer as usize, c.sp_offset)));
            let got: Result<Vec<u8>, String> = match r {
                Ok(Ok(())) => Ok(buf),
                Ok(Err(e)) => Err(format!("error: {e:?}")),
                Err(p) => Err(format!("panic at {}: {}", crate::util::short_loc(&crate::util::last_panic_loc()), crate::util::panic_message(&p))),
            };
            let words = (c.input.len() / 8) as u64;
            let d = fnv(&c.input) ^ fnv(format!("{}/{}/{}", c.maps.len(), c.sp_offset, c.stack_pointer).as_bytes());
            let v = classify(&c, &got, &exp).map(|sig| (sig, describe(&c, &got, &exp)));
            out.push((d, c.input.len() >= 8, v, words));
        }
        out
    });
    for items in results {
        for (d, nt, v, words) in items {
            rep.case(d, nt);
            rep.count("direct_cases", 1);
            rep.count("words_classified", words);
            if let Some((sig, det)) = v {
                rep.violation(&sig, det);
            }
        }
    }
    rep.require("words_classified", 1000);
}

// --------------------------------------------------------------------------------------------
// live level
// --------------------------------------------------------------------------------------------

/// Judge one sanitized stack copy from a real dump against the target.
/// `must`/`may` implement the two-sided tolerance described in DESIGN.md (C12).
pub fn judge_live(t: &Target, stack_start: u64, bytes: &[u8], sp: u64) -> Vec<(String, String)> {
    let mut errs = Vec::new();
    let Ok(truth) = t.read_mem(stack_start, bytes.len()) else {
        return errs;
    };
    let lines = t.maps();
    let line_of = |a: u64| lines.iter().position(|l| l.start <= a && a < l.end);
    // merged group (contiguous lines with the same non-empty name) around a line
    let group_has_exec = |i: usize| -> bool {
        let name = &lines[i].name;
        if name.is_empty() {
            return lines[i].perms.contains('x');
        }
        let mut lo = i;
        while lo > 0 && lines[lo - 1].name == *name && lines[lo - 1].end == lines[lo].start {
            lo -= 1;
        }
        let mut hi = i;
        while hi + 1 < lines.len() && lines[hi + 1].name == *name && lines[hi + 1].start == lines[hi].end {
            hi += 1;
        }
        (lo..=hi).any(|k| lines[k].perms.contains('x'))
    };
    let stack_line = line_of(sp);
    let off = ((sp.saturating_sub(stack_start) as usize) + 7) & !7;
    for (i, b) in bytes.iter().enumerate().take(std::cmp::min(off, bytes.len())) {
        if *b != 0 {
            errs.push(("below-sp-not-zero".into(), format!("byte {i} below the stack pointer is {b:#x}")));
            break;
        }
    }
    let mut p = off;
    while p + 8 <= bytes.len() {
        let inw = u64::from_le_bytes(truth[p..p + 8].try_into().unwrap());
        let outw = u64::from_le_bytes(bytes[p..p + 8].try_into().unwrap());
        let s = inw as i64;
        let small = (-4096..=4096).contains(&s);
        let li = line_of(inw);
        let in_stack_line = li.is_some() && li == stack_line;
        let in_exec_line = li.map(|i| lines[i].perms.contains('x')).unwrap_or(false);
        let must = small || in_stack_line || in_exec_line;
        let may = must || li.map(group_has_exec).unwrap_or(false) || {
            // same-name neighbours of the stack line (the writer merges them)
            match (li, stack_line) {
                (Some(a), Some(b)) => !lines[a].name.is_empty() && lines[a].name == lines[b].name,
                _ => false,
            }
        };
        if outw == inw {
            if !may && inw != SENTINEL {
                errs.push(("non-qualifying-word-survived".into(), format!("word {inw:#x} at stack offset {p} survived")));
            }
        } else if outw == SENTINEL {
            if must {
                errs.push((
                    if small { if s < 0 { "qualifying-negative-small-int-replaced".into() } else { "qualifying-small-int-replaced".into() } } else { "qualifying-pointer-replaced".into() },
                    format!("word {inw:#x} at stack offset {p} was replaced"),
                ));
            }
        } else {
            errs.push(("word-changed-to-non-sentinel".into(), format!("word {inw:#x} at stack offset {p} became {outw:#x}")));
        }
        p += 8;
        if errs.len() > 8 {
            break;
        }
    }
    for (i, b) in bytes.iter().enumerate().skip(p) {
        if *b != 0 {
            errs.push(("trailing-partial-word-not-zero".into(), format!("trailing byte {i} is {b:#x}")));
            break;
        }
    }
    errs
}

pub fn run_live(rep: &mut Report, targets: u64) {
    use crate::dump::{self, DumpOpts, Outcome};
    use crate::spec::*;
    use crate::tspec::*;
    let mut rng = Rng::new(rep.seed.wrapping_mul(424_243));
    for ti in 0..targets {
        let mut b = Builder::new();
        // an executable pattern region and a non-executable one
        let ex = b.anon(2, 4, 5, Fill::Pattern);
        let nx = b.anon(2, 4, 6, Fill::Pattern);
        let (exa, nxa) = (b.spec.regions[ex].addr, b.spec.regions[nx].addr);
        // an EXECUTE-ONLY mapping (`--xp` in the memory map)
        let xo = b.anon(1, 4, 1, Fill::Keep);
        let xoa = b.spec.regions[xo].addr;
        // an executable FILE mapping directly followed by an inaccessible anonymous reservation (what
        // the dynamic linker leaves behind a library): the writer widens the module over it, but a
        // pointer into the reservation is not a pointer into an executable mapping
        b.spec.dir = crate::target::new_dir("c12");
        let fpath = format!("{}/libc12-text.so", b.spec.dir);
        std::fs::write(&fpath, vec![0xc3u8; PAGE as usize]).expect("write");
        let fa = b.alloc(3, 7);
        b.add_region(Region { addr: fa, len: PAGE, prot: 5, kind: RegionKind::File { path: fpath, offset: 0 }, fill: Fill::Keep, pokes: Vec::new(), unlink_after: false });
        b.add_region(Region { addr: fa + PAGE, len: 2 * PAGE, prot: 0, kind: RegionKind::Anon, fill: Fill::Keep, pokes: Vec::new(), unlink_after: false });
        // every third target has more threads than a size limit keeps at full length: the stacks of
        // the threads beyond the 20th are shortened AND sanitized
        let many = ti % 3 == 2;
        let n = if many { 26 } else { rng.range(1, 5) as usize };
        for _ in 0..n {
            let pages = rng.range(1, 4);
            let sp_off = rng.below(pages * PAGE - 64) & !7;
            let base_guess = 0u64; // slots are relative to the stack base: pointer-to-own-stack is poked below
            let _ = base_guess;
            let mut slots = Vec::new();
            let mut k = (sp_off + 7) & !7;
            let vals: Vec<u64> = vec![
                exa + 16,
                exa + 2 * PAGE - 1,
                exa + 2 * PAGE,
                nxa + 8,
                5,
                (-5i64) as u64,
                4096,
                (-4096i64) as u64,
                4097,
                (-4097i64) as u64,
                SENTINEL,
                0,
                libc_text_addr(),
                // module text, then its reservation, twice (a lookup remembered from the word before
                // must not vouch for the next one)
                fa + 16,
                fa + PAGE + 8,
                fa + 32,
                fa + 2 * PAGE + 16,
            ];
            for v in vals {
                if k + 8 <= pages * PAGE {
                    slots.push((k, v));
                    k += 8 * rng.range(1, 3);
                }
            }
            // pointers into execute-only mappings: the generated one (first and last byte) and the
            // kernel's legacy vsyscall page when this machine has it (the oracle looks the line up)
            for v in [xoa, xoa + PAGE - 1, xoa + PAGE, 0xffff_ffff_ff60_0400u64] {
                if k + 8 <= pages * PAGE {
                    slots.push((k, v));
                    k += 8;
                    rep.count("live_words_aimed_at_execute_only_mappings", 1);
                }
            }
            let shape = StackShape { pages, sp_offset: sp_off as i64, slots, ..Default::default() };
            let mode = if rng.chance(1, 4) { Mode::Spin } else { Mode::Pause };
            b.sentinel(&mut rng, mode, &shape, None, None);
        }
        // own-stack pointers: poke after the stacks got their addresses
        for s in b.sentinels.clone() {
            let ri = b.spec.regions.iter().position(|r| r.addr == s.stack_base).unwrap();
            let at = s.stack_base + s.stack_len - 8;
            b.spec.regions[ri].pokes.push((at, (s.stack_base + 24).to_le_bytes().to_vec()));
        }
        let t = match Target::spawn(b.spec.clone(), &b.opts) {
            Ok(t) => t,
            Err(e) => {
                rep.inconclusive(format!("live target did not start: {e}"));
                continue;
            }
        };
        let mut o = DumpOpts::new(t.pid, t.pid);
        o.sanitize = true;
        if many || rng.chance(1, 2) {
            o.size_limit = Some(0);
        }
        if many {
            rep.count("live_dumps_sanitized_with_limit_and_many_threads", 1);
        }
        let (out, _) = {
            let _g = dump::DUMP_LOCK.lock().unwrap_or_else(|e| e.into_inner());
            dump::dump(&o)
        };
        match out {
            Outcome::Ok(img) => {
                let im = crate::image::decode(&img);
                for th in im.threads.as_ref().map(|v| v.as_slice()).unwrap_or(&[]) {
                    let Some(ctx) = &th.ctx else { continue };
                    if th.stack_size == 0 {
                        continue;
                    }
                    // only sentinel threads are quiescent by construction (the main thread runs)
                    if !t.manifest.tids.contains(&(th.tid as i32)) {
                        continue;
                    }
                    let bytes = &img[th.stack_rva as usize..(th.stack_rva + th.stack_size) as usize];
                    let errs = judge_live(&t, th.stack_start, bytes, ctx.rsp());
                    rep.count("live_stacks_judged", 1);
                    rep.count("live_words_judged", (bytes.len() / 8) as u64);
                    rep.case(fnv(bytes), true);
                    for (k, m) in errs {
                        rep.violation(&format!("C12 live {k}"), json!({"tid": th.tid, "stack_start": format!("{:#x}", th.stack_start), "len": th.stack_size, "sp": format!("{:#x}", ctx.rsp()), "message": m}));
                    }
                }
                if rep.samples.len() < 5 {
                    rep.sample(json!({"kind": "live sanitized dump", "threads": n + 1, "size_limit": o.size_limit}));
                }
            }
            Outcome::Err(e) => rep.note(&format!("live dump returned Err (no verdict): {}", e.chars().take(100).collect::<String>())),
            Outcome::Panic { message, location } => rep.violation(&format!("C12 live panic at {location}"), json!({"panic": message, "opts": o.describe()})),
        }
    }
}

fn libc_text_addr() -> u64 {
    // ASLR is disabled for targets and the harness loads the same libc: the address of a libc
    // function in OUR address space differs, so take a fixed well-known value instead: the
    // non-ASLR libc text of the target is found by the checker from its maps at judge time. Here we
    // only need *some* pointer that may or may not qualify; use getpid's address (likely not mapped
    // identically) — the judge handles either case through its own maps parse.
    libc::getpid as usize as u64
}

pub fn run(rep: &mut Report, thorough: bool, direct_only: bool) {
    rep.rule = "direct: generated (mapping layout 0..300 mappings incl. 2 MiB-bucket straddlers and modulo-2^11 aliases, stack words drawn from small ints +-0..4097, mapping bounds +-1, stack pointers, sentinel, random; sp offsets 0..len+16; lengths 0..4096 incl. non-multiples of 8) through the real sanitize_stack_copy vs. a linear-scan reference classifier. live: sanitized dumps of sentinel threads whose stacks hold chosen pointers, judged word by word against /proc/<pid>/mem and the checker's maps parse. distinct = hash(stack content, layout); non-trivial = at least one full word".into();
    run_direct(rep, if thorough { 3_000_000 } else { 200_000 });
    if !direct_only {
        run_live(rep, if thorough { 150 } else { 12 });
        rep.require("live_stacks_judged", 5);
        rep.require("live_dumps_sanitized_with_limit_and_many_threads", 2);
    }
}
