//! C07 — the memory list is faithful and complete.

use crate::dump::{self, DumpOpts, Outcome};
use crate::image;
use crate::report::Report;
use crate::rng::{fnv, pat, Rng};
use crate::scen;
use crate::spec::*;
use crate::target::Target;
use crate::tspec::*;
use serde_json::json;

pub fn run(rep: &mut Report, thorough: bool) {
    crate::util::install_quiet_panic_hook();
    rep.rule = "targets with address-pattern regions (r--, rw-, r-x; fenced by unmapped pages) and sentinel threads; 0..16 application regions of lengths {1,2,7,8,9,4095,4096,4097,65536,1 MiB} at all alignments mod 16, ending exactly at / starting exactly after an unmapped page; crash instruction pointer at {start,+1,+127,+128,+129,mid,end-129,end-128,end-1} of an r-x pattern mapping, in a hole, or none. Oracle: every descriptor's bytes vs. the address-derived pattern and /proc/<pid>/mem; multiset inclusion of requested regions; every non-empty stack present; IP window bounds. distinct = hash(app regions, ip position, thread count); non-trivial = Ok dump with >= 1 descriptor compared".into();
    let mut rng = Rng::new(rep.seed.wrapping_mul(707_071));
    let ntargets = if thorough { 700 } else { 8 };
    let per_target = if thorough { 24 } else { 12 };
    for ti in 0..ntargets {
        let mut b = Builder::new();
        // pattern regions: a big rw one (1 MiB + 3 pages), small ones, an r-x one; each fenced
        let big = b.anon(256 + 3, 4, 6, Fill::Pattern);
        let ro = b.anon(3, 2, 4, Fill::Pattern);
        let one = b.anon(1, 1, 6, Fill::Pattern);
        let rx_pages = *rng.pick(&[1u64, 2, 5]);
        // half of the targets have a distinct readable mapping directly below the r-x one (no gap),
        // and one directly above
        let adjacent = ti % 2 == 0;
        if adjacent {
            b.anon(2, 3, 6, Fill::Pattern);
        }
        let rx = b.anon(rx_pages, if adjacent { 0 } else { 3 }, 5, Fill::Pattern);
        if adjacent {
            b.anon(1, 0, 4, Fill::Pattern);
        }
        let regions: Vec<(u64, u64)> = [big, ro, one, rx].iter().map(|&i| (b.spec.regions[i].addr, b.spec.regions[i].len)).collect();
        let (rxa, rxl) = regions[3];
        let hole = regions[0].0 - PAGE; // an unmapped page (right below the big region)
        // every fourth target has more threads than the size-limit logic keeps at full length
        let nthreads = if ti % 4 == 3 { 26 } else { *rng.pick(&[0usize, 1, 3, 8]) };
        for _ in 0..nthreads {
            let mode = if rng.chance(1, 4) { Mode::Spin } else { Mode::Pause };
            let pages = rng.range(1, 3);
            let spo = (rng.below(pages * PAGE - 16) & !7) as i64;
            b.sentinel(&mut rng, mode, &StackShape { pages, sp_offset: spo, low: (spo / 8) % 3 == 0, ..Default::default() }, None, None);
        }
        // a readable pattern page directly followed by a pattern page that has since been made
        // inaccessible (what a collector or a guard-page allocator does to part of a live region):
        // a request across the seam can only be read in part
        let half = b.anon(1, 6, 6, Fill::Pattern);
        b.anon(1, 0, 0, Fill::Pattern);
        let straddle = (b.spec.regions[half].addr, 2 * PAGE);
        let t = match Target::spawn(b.spec.clone(), &b.opts) {
            Ok(t) => t,
            Err(e) => {
                rep.inconclusive(format!("target did not start: {e}"));
                continue;
            }
        };
        let lines = t.maps();
        for di in 0..per_target {
            let mut o = DumpOpts::new(t.pid, t.pid);
            // sanitization only concerns the stacks: every other region must stay byte-exact
            o.sanitize = rng.chance(1, 3);
            // a size limit shortens the stacks of the threads beyond the 20th: the (shorter) stack
            // descriptors must still hold the bytes of the range they name
            if nthreads > 20 && di % 2 == 0 {
                o.size_limit = Some(0);
                rep.count("dumps_with_size_limit_and_many_threads", 1);
            }
            // application regions
            let napp = *rng.pick(&[0usize, 1, 2, 5, 16]);
            for _ in 0..napp {
                let (a, l) = *rng.pick(&regions[..3]);
                let len = std::cmp::min(l, *rng.pick(&[1u64, 2, 7, 8, 9, 4095, 4096, 4097, 65536, 1 << 20]));
                let start = match rng.below(4) {
                    0 => a,               // starts exactly after an unmapped page
                    1 => a + l - len,     // ends exactly at an unmapped page
                    _ => a + rng.below(l - len + 1),
                };
                o.app_memory.push((start, len));
            }
            // regions that overlap what the writer captures anyway: inside a thread's stack, nested in
            // another requested region, a repeated request
            if !b.sentinels.is_empty() && rng.chance(1, 2) {
                let s = rng.pick(&b.sentinels);
                let sp_page = s.regs.gpr[RSP] & !4095;
                let room = s.stack_base + s.stack_len - sp_page;
                let len = std::cmp::min(room - 1, *rng.pick(&[1u64, 8, 301, 2048, 4095]));
                let start = sp_page + rng.below(room - len);
                if (start, len) != (sp_page, room) {
                    o.app_memory.push((start, len));
                }
            }
            if let Some(&(a, l)) = o.app_memory.first() {
                if l > 4 && rng.chance(1, 3) {
                    o.app_memory.push((a + 1, l - 2));
                }
                if rng.chance(1, 4) {
                    o.app_memory.push((a, l));
                }
            }
            let partly_readable = di % 3 == 1;
            if partly_readable {
                o.app_memory.push(straddle);
            }
            // crash context / instruction pointer position
            // every instruction-pointer position once per target, then random ones
            let ip_choice = if di < 12 { di as u64 } else { rng.below(12) };
            let ip = match ip_choice {
                0 => None,
                1 => Some(hole + 100),
                2 => Some(rxa),
                3 => Some(rxa + 1),
                4 => Some(rxa + 127),
                5 => Some(rxa + 128),
                6 => Some(rxa + 129),
                7 => Some(rxa + rxl / 2),
                8 => Some(rxa + rxl - 129),
                9 => Some(rxa + rxl - 128),
                10 => Some(rxa + rxl - 1),
                _ => Some(rxa + rng.below(rxl)),
            };
            if let Some(ip) = ip {
                let (rsp, tid) = if !b.sentinels.is_empty() {
                    let s = rng.pick(&b.sentinels);
                    (s.regs.gpr[RSP], t.manifest.tids[s.index])
                } else {
                    (regions[0].0 + 4096 + 64, t.pid)
                };
                o.blamed = tid;
                let mut crng = rng.fork(3);
                o.crash = Some(dump::CrashSpec { gregs: scen::crash_gregs(&mut crng, rsp, ip), fpstate: crng.bytes(512), signo: 11, code: 1, addr: ip, tid, noise_seed: 0 });
            }
            let (out, _) = {
                let _g = dump::DUMP_LOCK.lock().unwrap_or_else(|e| e.into_inner());
                dump::dump(&o)
            };
            let desc = fnv(format!("{:?}/{ip_choice}/{nthreads}", o.app_memory).as_bytes());
            let case = json!({"app_regions": o.app_memory.iter().map(|(a, l)| format!("{a:#x}+{l}")).collect::<Vec<_>>(), "ip": ip.map(|x| format!("{x:#x}")), "rx_mapping": format!("{rxa:#x}+{rxl:#x}"), "threads": nthreads + 1});
            match out {
                Outcome::Ok(img) => {
                    let im = image::decode(&img);
                    let mem = im.memory.clone().unwrap_or_default();
                    let threads = im.threads.clone().unwrap_or_default();
                    let mut compared = 0u64;
                    // 1. faithful bytes
                    for d in &mem {
                        // the main thread runs: its stack is not quiescent
                        let running_stack = threads.iter().any(|th| th.tid as i32 == t.pid && th.stack_start == d.start && th.stack_size == d.size);
                        if running_stack || d.size == 0 || (partly_readable && d.start == straddle.0) {
                            continue;
                        }
                        // with sanitization the stack descriptors hold the sanitized copy (C12's business)
                        let is_stack = threads.iter().any(|th| th.stack_size > 0 && th.stack_start == d.start && th.stack_size == d.size && th.stack_rva == d.rva);
                        if o.sanitize && is_stack {
                            continue;
                        }
                        let got = &img[d.rva as usize..(d.rva + d.size) as usize];
                        // pattern regions: compare with b(a) directly
                        let in_pattern = regions.iter().any(|(a, l)| *a <= d.start && d.start + d.size as u64 <= a + l);
                        let ok = if in_pattern {
                            got.iter().enumerate().all(|(i, b)| *b == pat(d.start + i as u64))
                        } else {
                            match t.read_mem(d.start, d.size as usize) {
                                Ok(truth) => truth == got,
                                Err(_) => true, // not readable by the checker: no verdict
                            }
                        };
                        compared += d.size as u64;
                        if !ok {
                            rep.violation("C07 memory region bytes differ from the target", json!({"case": case, "region": format!("{:#x}+{}", d.start, d.size)}));
                        }
                    }
                    rep.count("memory_bytes_compared", compared);
                    rep.count("descriptors_checked", mem.len() as u64);
                    // 2. requested regions, as a multiset
                    let mut pool: Vec<(u64, u32)> = mem.iter().map(|d| (d.start, d.size)).collect();
                    for (a, l) in &o.app_memory {
                        if partly_readable && (*a, *l) == straddle {
                            continue;
                        }
                        if let Some(p) = pool.iter().position(|(s, z)| s == a && *z as u64 == *l) {
                            pool.swap_remove(p);
                        } else {
                            rep.violation("C07 requested application region missing or altered", json!({"case": case, "requested": format!("{a:#x}+{l}"), "listed": mem.iter().map(|d| format!("{:#x}+{}", d.start, d.size)).collect::<Vec<_>>()}));
                        }
                    }
                    rep.count("app_regions_checked", o.app_memory.len() as u64);
                    // 2b. the partly readable request: whatever length the writer records for it (the
                    // readable page at least), every recorded byte is the target's byte at that address -
                    // the inaccessible page still holds the pattern it was filled with
                    if partly_readable {
                        rep.count("partly_readable_requests_checked", 1);
                        let got: Vec<&image::MemDesc> = mem.iter().filter(|d| d.start == straddle.0).collect();
                        match got.as_slice() {
                            [d] if (d.size as u64) >= PAGE && (d.size as u64) <= straddle.1 => {
                                let bytes = &img[d.rva as usize..(d.rva + d.size) as usize];
                                if let Some(i) = bytes.iter().enumerate().position(|(i, x)| *x != pat(d.start + i as u64)) {
                                    rep.violation("C07 region over a partly readable request holds bytes that are not the target's memory", json!({"case": case, "recorded": format!("{:#x}+{}", d.start, d.size), "first_wrong_offset": i, "got": bytes[i], "target_has": pat(d.start + i as u64)}));
                                }
                            }
                            other => rep.violation("C07 partly readable application region missing or mis-sized", json!({"case": case, "requested": format!("{:#x}+{}", straddle.0, straddle.1), "recorded": other.iter().map(|d| format!("{:#x}+{}", d.start, d.size)).collect::<Vec<_>>()})),
                        }
                    }
                    // 3. every non-empty stack
                    for th in &threads {
                        if th.stack_size > 0 {
                            rep.count("stacks_checked_in_memory_list", 1);
                            if !mem.iter().any(|d| d.start == th.stack_start && d.size == th.stack_size && d.rva == th.stack_rva) {
                                rep.violation("C07 thread stack missing from the memory list", json!({"case": case, "tid": th.tid}));
                            }
                        }
                    }
                    // 3b. ground truth: every sentinel thread HAS a non-empty stack (its stack pointer
                    // was placed inside a readable mapping), so a region holding that stack pointer
                    // must be in the memory list - a stack the writer silently gave up on is a
                    // missing region, not an "empty stack"
                    for s in &b.sentinels {
                        let tid = t.manifest.tids[s.index];
                        if !threads.iter().any(|th| th.tid as i32 == tid) {
                            continue;
                        }
                        let sp = s.regs.gpr[RSP];
                        rep.count("sentinel_stacks_required_in_memory_list", 1);
                        if !mem.iter().any(|d| d.start <= sp && sp < d.start + d.size as u64) {
                            rep.violation("C07 no memory region holds the stack of a thread whose stack pointer lies in readable memory", json!({"case": case, "tid": tid, "sp": format!("{sp:#x}"), "stack_mapping": format!("{:#x}+{:#x}", s.stack_base, s.stack_len)}));
                        }
                    }
                    // 4. instruction-pointer window
                    if let Some(ip) = ip {
                        let line = lines.iter().find(|l| l.start <= ip && ip < l.end);
                        if let Some(l) = line {
                            rep.count("ip_windows_checked", 1);
                            // candidates: descriptors containing ip that are not stacks / app regions
                            let cands: Vec<&image::MemDesc> = mem
                                .iter()
                                .filter(|d| d.start <= ip && ip < d.start + d.size as u64)
                                .filter(|d| !threads.iter().any(|th| th.stack_start == d.start && th.stack_size == d.size))
                                .filter(|d| !o.app_memory.iter().any(|(a, z)| *a == d.start && *z == d.size as u64))
                                .collect();
                            let lo = std::cmp::max(l.start, ip.saturating_sub(128));
                            let hi = std::cmp::min(l.end, ip + 128);
                            if cands.is_empty() {
                                rep.violation("C07 instruction-pointer window missing", json!({"case": case, "expected": format!("[{lo:#x},{hi:#x})")}));
                            } else if !cands.iter().any(|d| d.start == lo && d.start + d.size as u64 == hi) {
                                rep.violation(
                                    "C07 instruction-pointer window mis-clipped",
                                    json!({"case": case, "expected": format!("[{lo:#x},{hi:#x})"), "got": cands.iter().map(|d| format!("[{:#x},{:#x})", d.start, d.start + d.size as u64)).collect::<Vec<_>>()}),
                                );
                            }
                        } else {
                            rep.count("ip_in_hole_cases", 1);
                        }
                    }
                    rep.case(desc, !mem.is_empty());
                    if rep.samples.len() < 4 && napp > 0 {
                        rep.sample(case.clone());
                    }
                }
                Outcome::Err(e) => {
                    rep.case(desc, false);
                    rep.count("dumps_no_verdict(err)", 1);
                    if rep.counter("dumps_no_verdict(err)") <= 3 {
                        rep.note(&format!("no verdict (Err): {}", e.chars().take(140).collect::<String>()));
                    }
                }
                Outcome::Panic { message, location } => {
                    rep.case(desc, true);
                    rep.violation(&format!("C07 panic at {location}"), json!({"case": case, "panic": message}));
                }
            }
        }
    }
    rep.require("memory_bytes_compared", 10_000);
    rep.require("app_regions_checked", 10);
    rep.require("ip_windows_checked", 5);
    rep.require("dumps_with_size_limit_and_many_threads", 4);
    rep.require("partly_readable_requests_checked", 4);
}
