//! C17 — all remote-memory read strategies return the target's bytes.

use crate::report::Report;
use crate::rng::{fnv, pat, Rng};
use crate::spec::*;
use crate::target::Target;
use crate::tspec::*;
use minidump_writer::mem_reader::MemReader;
use minidump_writer::ptrace_dumper::PtraceDumper;
use serde_json::json;

const STRATEGIES: [&str; 3] = ["process_vm_readv", "/proc/pid/mem", "ptrace-peek"];

fn reader(kind: usize, pid: i32) -> MemReader {
    match kind {
        0 => MemReader::for_virtual_mem(pid),
        1 => MemReader::for_file(pid).expect("open /proc/pid/mem"),
        _ => MemReader::for_ptrace(pid),
    }
}

struct Region {
    start: u64,
    end: u64,
    /// PROT_NONE fence [start,end): never written, so its true content is zero; /proc/<pid>/mem and
    /// PTRACE_PEEKDATA read it (FOLL_FORCE), process_vm_readv does not
    fence: (u64, u64),
    /// addresses inside the mapping that hold 0xFF instead of the pattern (all-ones words are
    /// what PTRACE_PEEKDATA returns as -1)
    ones: Vec<(u64, u64)>,
}

impl Region {
    /// true byte at an address, None when nothing is mapped there
    fn truth(&self, a: u64) -> Option<u8> {
        if self.start <= a && a < self.end {
            if self.ones.iter().any(|(s, e)| *s <= a && a < *e) {
                return Some(0xff);
            }
            Some(pat(a))
        } else if self.fence.0 <= a && a < self.fence.1 {
            Some(0)
        } else {
            None
        }
    }
}

pub fn run(rep: &mut Report, thorough: bool) {
    crate::util::install_quiet_panic_hook();
    rep.rule = "a pattern mapping fenced by a PROT_NONE mapping on one side and an unmapped page on the other (one target has it at address 0), target suspended through the real suspend_threads; for each of the three strategies (forced through MemReader::for_*): EXHAUSTIVE small grid (every end distance 0..16 x every length 1..40 at the mapping end, and every start distance 0..16 x length 1..40 at the mapping start), sampled large ranges (4095,4096,4097,65535,65536 at all alignments mod 8), ranges crossing the end by 1..4096 bytes, ranges starting in the fence; both read() and read_to_vec(); plus short read histories on one auto-selecting reader (MemReader::new) whose first read starts in readable memory. finally the target is killed (zombie) and the same readers are asked again. Oracle: address-derived pattern. distinct = hash(strategy, start, length); non-trivial = every case".into();
    let mut rng = Rng::new(rep.seed.wrapping_mul(171_717));
    let ntargets = if thorough { 49 } else { 3 };
    for ti in 0..ntargets {
        let mut b = Builder::new();
        // layout: [PROT_NONE 2 pages][pattern 17+ pages][unmapped]  or mirrored; the last target has
        // its pattern mapping at ADDRESS 0 (ranges that end below the first word boundary)
        let low = ti == ntargets - 1;
        let mirrored = low || ti % 2 == 1;
        let pages = 17 + (ti as u64 % 3);
        let (m_start, m_end);
        let fence_idx;
        if low {
            m_start = 0;
            m_end = pages * PAGE;
            b.add_region(crate::spec::Region { addr: 0, len: pages * PAGE, prot: 6, kind: crate::spec::RegionKind::Anon, fill: Fill::Pattern, pokes: Vec::new(), unlink_after: false });
            fence_idx = b.add_region(crate::spec::Region { addr: m_end, len: 2 * PAGE, prot: 0, kind: crate::spec::RegionKind::Anon, fill: Fill::Keep, pokes: Vec::new(), unlink_after: false });
        } else if !mirrored {
            fence_idx = b.anon(2, 8, 0, Fill::Keep);
            let m = b.anon(pages, 0, if ti % 3 == 2 { 4 } else { 6 }, Fill::Pattern);
            m_start = b.spec.regions[m].addr;
            m_end = m_start + pages * PAGE;
            b.alloc(0, 8);
        } else {
            let m = b.anon(pages, 8, 6, Fill::Pattern);
            m_start = b.spec.regions[m].addr;
            m_end = m_start + pages * PAGE;
            fence_idx = b.anon(2, 0, 0, Fill::Keep);
        }
        // all-ones runs: an aligned word, an unaligned run, the last 8 / 16 bytes of the mapping, the first word
        let ones: Vec<(u64, u64)> = vec![if low { (m_start + 8, m_start + 16) } else { (m_start, m_start + 8) }, (m_start + 64, m_start + 72), (m_start + 4099, m_start + 4099 + 11), (m_start + 8 * PAGE + 16, m_start + 8 * PAGE + 48), (m_end - if ti % 2 == 0 { 8 } else { 16 }, m_end)];
        {
            let mi = b.spec.regions.iter().position(|r| r.addr == m_start).unwrap();
            for (s, e) in &ones {
                b.spec.regions[mi].pokes.push((*s, vec![0xff; (*e - *s) as usize]));
            }
        }
        b.sentinel(&mut rng, Mode::Pause, &StackShape::default(), None, None);
        let t = match Target::spawn(b.spec.clone(), &b.opts) {
            Ok(t) => t,
            Err(e) if low => {
                // page 0 cannot be mapped here (vm.mmap_min_addr without CAP_SYS_RAWIO)
                rep.note(&format!("no target with a mapping at address 0 on this machine: {e}"));
                continue;
            }
            Err(e) => {
                rep.inconclusive(format!("target did not start: {e}"));
                continue;
            }
        };
        if low {
            rep.count("targets_with_a_mapping_at_address_0", 1);
        }
        let fa = b.spec.regions[fence_idx].addr;
        let region = Region { start: m_start, end: m_end, fence: (fa, fa + 2 * PAGE), ones: ones.clone() };
        // suspend through the real code path (this thread becomes the tracer)
        let mut dumper = match PtraceDumper::new_report_soft_errors(t.pid, std::time::Duration::from_secs(10), Default::default(), error_graph::strategy::DontCare) {
            Ok(d) => d,
            Err(e) => {
                rep.inconclusive(format!("dumper init failed: {e:?}"));
                continue;
            }
        };
        dumper.suspend_threads(error_graph::strategy::DontCare);
        if dumper.threads.is_empty() {
            rep.inconclusive("no thread could be suspended".into());
            continue;
        }
        let pid = t.pid;
        // ---- case list: (start, len)
        let mut cases: Vec<(u64, usize)> = Vec::new();
        for d in 0..=16u64 {
            for len in 1..=40u64 {
                if region.end - d >= len + region.start {
                    cases.push((region.end - d - len, len as usize)); // ends d bytes before the mapping end
                }
                cases.push((region.start + d, len as usize)); // starts d bytes after the mapping start
            }
        }
        let exhaustive_n = cases.len();
        for &l in &[4095usize, 4096, 4097, 65535, 65536] {
            for a in 0..8u64 {
                cases.push((region.start + 8 + a, l));
                cases.push((region.end - l as u64 - a, l)); // ending a bytes before the end
            }
        }
        // crossing the end / starting in the fence (unreadable parts)
        let mut crossing: Vec<(u64, usize)> = Vec::new();
        for over in [1u64, 2, 7, 8, 9, 100, 4095, 4096] {
            for len in [over + 1, over + 7, over + 8, over + 64, over + 5000] {
                crossing.push((region.end + over - len, len as usize));
            }
        }
        for back in [1u64, 7, 8, 9, 4096] {
            if let Some(st) = region.start.checked_sub(back) {
                crossing.push((st, (back + 16) as usize));
            }
        }
        crossing.push((region.end, 8));
        crossing.push((region.end + 4096, 16));
        if let Some(st) = region.start.checked_sub(4096) {
            crossing.push((st, 4096));
        }
        for _ in 0..(if thorough { 300 } else { 60 }) {
            let len = rng.range(1, 70_000) as usize;
            let start = region.start + rng.below(region.end - region.start);
            if start + len as u64 <= region.end {
                cases.push((start, len));
            } else {
                crossing.push((start, len));
            }
        }
        for kind in 0..3 {
            let mut mr = reader(kind, pid);
            for (ci, &(start, len)) in cases.iter().enumerate() {
                let truth: Vec<u8> = (0..len as u64).map(|i| region.truth(start + i).unwrap_or(0)).collect();
                for api in 0..2 {
                    let res: Result<Vec<u8>, String> = if api == 0 {
                        let mut dst = vec![0xAAu8; len];
                        mr.read(start as usize, &mut dst).map(|n| {
                            dst.truncate(n);
                            dst
                        }).map_err(|e| format!("{e}"))
                    } else {
                        mr.read_to_vec(start as usize, std::num::NonZeroUsize::new(len).unwrap()).map_err(|e| format!("{e}"))
                    };
                    rep.case(fnv(format!("{kind}/{start}/{len}/{api}").as_bytes()), true);
                    rep.count("readable_range_reads", 1);
                    if ci < exhaustive_n {
                        rep.count("exhaustive_grid_reads", 1);
                    }
                    rep.count("bytes_compared", len as u64);
                    let tail = (len % 8 != 0) as usize;
                    let at_end = start + len as u64 == region.end;
                    let cls = format!("{}{}", if at_end { ", range ends at the mapping end" } else { "" }, if tail == 1 { ", length not a multiple of 8" } else { "" });
                    match res {
                        Ok(v) if v == truth => {}
                        Ok(v) => rep.violation(
                            &format!("C17 {} returned wrong bytes or length for a readable range{cls}", STRATEGIES[kind]),
                            json!({"strategy": STRATEGIES[kind], "api": if api == 0 { "read" } else { "read_to_vec" }, "start": format!("{start:#x}"), "len": len, "returned_len": v.len(), "mapping": format!("[{:#x},{:#x})", region.start, region.end)}),
                        ),
                        Err(e) => rep.violation(
                            &format!("C17 {} failed on a fully readable range{cls}", STRATEGIES[kind]),
                            json!({"strategy": STRATEGIES[kind], "api": if api == 0 { "read" } else { "read_to_vec" }, "start": format!("{start:#x}"), "len": len, "error": e, "mapping": format!("[{:#x},{:#x})", region.start, region.end), "distance_to_mapping_end": region.end - start - len as u64}),
                        ),
                    }
                }
            }
            for &(start, len) in &crossing {
                for api in 0..2 {
                    let (res, n_reported): (Result<Vec<u8>, String>, usize) = if api == 0 {
                        let mut dst = vec![0xAAu8; len];
                        match mr.read(start as usize, &mut dst) {
                            Ok(n) => {
                                dst.truncate(std::cmp::min(n, len));
                                (Ok(dst), n)
                            }
                            Err(e) => (Err(format!("{e}")), 0),
                        }
                    } else {
                        match mr.read_to_vec(start as usize, std::num::NonZeroUsize::new(len).unwrap()) {
                            Ok(v) => {
                                let n = v.len();
                                (Ok(v), n)
                            }
                            Err(e) => (Err(format!("{e}")), 0),
                        }
                    };
                    rep.case(fnv(format!("x{kind}/{start}/{len}/{api}").as_bytes()), true);
                    rep.count("partly_unreadable_range_reads", 1);
                    if let Ok(v) = res {
                        // every returned byte must be the true byte of a mapped address, and a
                        // range that touches unmapped memory can only come back as a strict prefix
                        let mapped_prefix = (0..len as u64).take_while(|i| region.truth(start + i).is_some()).count();
                        let bytes_true = v.iter().enumerate().all(|(i, b)| region.truth(start + i as u64) == Some(*b));
                        let ok_prefix = n_reported <= mapped_prefix && n_reported == v.len() && bytes_true && (mapped_prefix == len || n_reported < len);
                        if !ok_prefix {
                            rep.violation(
                                &format!("C17 {} fabricated data for a range running into unreadable memory", STRATEGIES[kind]),
                                json!({"strategy": STRATEGIES[kind], "api": if api == 0 { "read" } else { "read_to_vec" }, "start": format!("{start:#x}"), "len": len, "returned_len": n_reported, "mapped_prefix": mapped_prefix}),
                            );
                        } else {
                            rep.count("true_prefixes_returned", 1);
                        }
                    } else {
                        rep.count("errors_returned_for_unreadable", 1);
                    }
                }
            }
        }
        // ---- the auto-selecting reader (MemReader::new, what copy_from_process uses): short
        // histories on ONE reader. The first read is readable or at least starts in readable
        // memory (a reader whose very first read hits nothing readable gives up for good by
        // design: not generated); what one read returned must not change what later reads return.
        for h in 0..(if thorough { 400 } else { 120 }) {
            let mut mr = MemReader::new(pid);
            let nreads = 2 + rng.usize_below(4);
            let mut hist: Vec<String> = Vec::new();
            for k in 0..nreads {
                let first_crossing: Vec<&(u64, usize)> = crossing.iter().filter(|(s, _)| region.truth(*s).is_some() && *s >= region.start).collect();
                let (start, len) = if k == 0 {
                    if h % 2 == 0 && !first_crossing.is_empty() { **rng.pick(&first_crossing) } else { *rng.pick(&cases) }
                } else if rng.chance(1, 3) {
                    *rng.pick(&crossing)
                } else {
                    *rng.pick(&cases)
                };
                let mapped_prefix = (0..len as u64).take_while(|i| region.truth(start + i).is_some()).count();
                let api = rng.usize_below(2);
                let res: Result<Vec<u8>, String> = if api == 0 {
                    let mut dst = vec![0xAAu8; len];
                    mr.read(start as usize, &mut dst).map(|n| {
                        dst.truncate(std::cmp::min(n, len));
                        dst
                    }).map_err(|e| format!("{e}"))
                } else {
                    mr.read_to_vec(start as usize, std::num::NonZeroUsize::new(len).unwrap()).map_err(|e| format!("{e}"))
                };
                hist.push(format!("{}({start:#x}+{len}: {} of {len} readable) -> {}", if api == 0 { "read" } else { "read_to_vec" }, mapped_prefix, match &res { Ok(v) => format!("{} bytes", v.len()), Err(e) => format!("Err({})", e.chars().take(60).collect::<String>()) }));
                rep.case(fnv(format!("auto/{h}/{k}/{start}/{len}").as_bytes()), true);
                rep.count("auto_reader_reads", 1);
                match res {
                    Ok(v) => {
                        let bytes_true = v.iter().enumerate().all(|(i, b)| region.truth(start + i as u64) == Some(*b));
                        let touches_fence = start < region.fence.1 && start + len as u64 > region.fence.0;
                        let full = mapped_prefix == len;
                        // (a range reaching into the PROT_NONE fence may come back as a true prefix)
                        if !bytes_true || v.len() > mapped_prefix || (full && !touches_fence && v.len() != len) || (!full && v.len() >= len) {
                            rep.violation("C17 auto-selecting reader returned wrong bytes or length", json!({"history": hist, "mapping": format!("[{:#x},{:#x})", region.start, region.end)}));
                            break;
                        }
                    }
                    // the PROT_NONE fence is readable only to the strategies that force through page
                    // protections: a range touching it may legitimately fail on the vectored one
                    Err(_) if mapped_prefix == len && !(start < region.fence.1 && start + len as u64 > region.fence.0) => {
                        rep.violation("C17 auto-selecting reader failed on a fully readable range after an earlier read on the same reader", json!({"history": hist, "mapping": format!("[{:#x},{:#x})", region.start, region.end)}));
                        break;
                    }
                    Err(_) => {}
                }
            }
        }
        // ---- a reader that outlives a detach: the threads are released (a read through the ptrace
        // strategy now fails: the target is not in a ptrace-stop), attached again, and the SAME
        // readers must serve readable ranges exactly as before
        {
            let mut readers: Vec<(usize, MemReader)> = (0..3).map(|k| (k, reader(k, pid))).collect();
            for (_, mr) in readers.iter_mut() {
                let mut dst = vec![0u8; 16];
                let _ = mr.read(region.start as usize + 64, &mut dst);
            }
            dumper.resume_threads(error_graph::strategy::DontCare);
            for (_, mr) in readers.iter_mut() {
                let mut dst = vec![0u8; 16];
                let _ = mr.read(region.start as usize + 64, &mut dst); // may fail: not traced now
                rep.count("reads_while_detached", 1);
            }
            dumper.suspend_threads(error_graph::strategy::DontCare);
            if !dumper.threads.is_empty() {
                for (kind, mr) in readers.iter_mut() {
                    for &(start, len) in &[(region.start + 64, 16usize), (region.start + 4096 + 3, 4096), (region.end - 24, 24)] {
                        let truth: Vec<u8> = (0..len as u64).map(|i| region.truth(start + i).unwrap_or(0)).collect();
                        let mut dst = vec![0xAAu8; len];
                        let res = mr.read(start as usize, &mut dst).map(|n| {
                            dst.truncate(n);
                            dst
                        });
                        rep.case(fnv(format!("reattached/{kind}/{start}/{len}").as_bytes()), true);
                        rep.count("reads_after_reattach", 1);
                        match res {
                            Ok(v) if v == truth => {}
                            Ok(v) => rep.violation(&format!("C17 {} returned wrong bytes after the target was released and attached again", STRATEGIES[*kind]), json!({"strategy": STRATEGIES[*kind], "start": format!("{start:#x}"), "len": len, "returned_len": v.len()})),
                            Err(e) => rep.violation(&format!("C17 {} fails on a readable range after the target was released and attached again", STRATEGIES[*kind]), json!({"strategy": STRATEGIES[*kind], "start": format!("{start:#x}"), "len": len, "error": format!("{e}")})),
                        }
                    }
                }
            }
        }
        // ---- the target dies (SIGKILL, not yet reaped: a zombie without an address space) while
        // readers for it exist: NOTHING is readable any more, so every strategy must fail or return
        // zero bytes - never "succeed" with bytes it did not read, and never panic
        {
            let mut readers: Vec<(usize, MemReader)> = (0..3).map(|k| (k, reader(k, pid))).collect();
            // each reader has served one good read, so that its file / strategy is set up
            for (_, mr) in readers.iter_mut() {
                let mut dst = vec![0u8; 16];
                let _ = mr.read(region.start as usize + 64, &mut dst);
            }
            drop(dumper);
            unsafe {
                libc::kill(pid, libc::SIGKILL);
            }
            let t0 = std::time::Instant::now();
            // dead = the leader is a zombie, every other thread is gone, and the address space has been
            // released (the memory map reads empty): the threads of a killed process die one by one,
            // and the memory stays readable until the last of them has let go of it
            let mut dead = false;
            while t0.elapsed().as_secs() < 20 {
                let leader_z = t.thread_status(pid).map(|s| s.0) == Some('Z');
                let others_gone = t.manifest.tids.iter().all(|tid| !std::path::Path::new(&format!("/proc/{pid}/task/{tid}")).exists());
                let no_mm = std::fs::read(format!("/proc/{pid}/maps")).map(|m| m.is_empty()).unwrap_or(true);
                if leader_z && others_gone && no_mm {
                    dead = true;
                    break;
                }
                std::thread::sleep(std::time::Duration::from_millis(1));
            }
            if !dead {
                rep.inconclusive("the killed target did not turn into a zombie without an address space within 20 s".to_string());
                continue;
            }
            for (kind, mr) in readers.iter_mut() {
                for &(start, len) in &[(region.start + 64, 16usize), (region.start + 4096, 4096), (region.end - 8, 8)] {
                    for api in 0..2 {
                        let r = std::panic::catch_unwind(std::panic::AssertUnwindSafe(|| {
                            if api == 0 {
                                let mut dst = vec![0xAAu8; len];
                                mr.read(start as usize, &mut dst).map(|n| n).map_err(|e| format!("{e}"))
                            } else {
                                mr.read_to_vec(start as usize, std::num::NonZeroUsize::new(len).unwrap()).map(|v| v.len()).map_err(|e| format!("{e}"))
                            }
                        }));
                        rep.case(fnv(format!("dead/{kind}/{start}/{len}/{api}").as_bytes()), true);
                        rep.count("reads_from_a_dead_target", 1);
                        match r {
                            Ok(Ok(n)) if n > 0 => rep.violation(
                                &format!("C17 {} fabricated data: the target has no address space any more", STRATEGIES[*kind]),
                                json!({"strategy": STRATEGIES[*kind], "api": if api == 0 { "read" } else { "read_to_vec" }, "start": format!("{start:#x}"), "len": len, "claimed_bytes": n}),
                            ),
                            Ok(_) => {}
                            Err(p) => rep.violation(
                                &format!("C17 {} panicked on a read from a target that has died", STRATEGIES[*kind]),
                                json!({"strategy": STRATEGIES[*kind], "panic": crate::util::panic_message(&p), "at": crate::util::short_loc(&crate::util::last_panic_loc())}),
                            ),
                        }
                    }
                }
            }
        }
        if rep.samples.len() < 3 {
            rep.sample(json!({"mapping": format!("[{:#x},{:#x})", region.start, region.end), "fence": if mirrored { "PROT_NONE after, unmapped before" } else { "PROT_NONE before, unmapped after" }, "readable_cases": cases.len(), "crossing_cases": crossing.len(), "example_cases": cases.iter().take(3).map(|(s, l)| format!("{s:#x}+{l}")).collect::<Vec<_>>()}));
        }
    }
    rep.require("readable_range_reads", 1000);
    rep.require("partly_unreadable_range_reads", 50);
    rep.require("auto_reader_reads", 100);
    rep.require("reads_from_a_dead_target", 18);
    rep.require("reads_after_reattach", 9);
}
