//! C11 — best-effort steps fail softly and every failure is reported.

use crate::dump::{self, DumpOpts, Outcome};
use crate::image::{self, Image};
use crate::props::c19::{canonical_diff_opts, DiffOpts};
use crate::report::Report;
use crate::rng::{fnv, Rng};
use crate::scen::{self, TargetCfg};
use crate::spec::{ThreadKind, SLOT_EXIT_REQ};
use crate::target::Target;
use crate::tspec::*;
use serde_json::{json, Value};

pub const FAILSPOTS: [&str; 5] = ["StopProcess", "FillMissingAuxvInfo", "ThreadName", "SuspendThreads", "CpuInfoFileOpen"];

/// best-effort raw streams: (stream type, soft-error key)
pub const BEST_EFFORT: [(u32, &str); 10] = [
    (image::ST_LINUX_CPU_INFO, "WriteCpuInfoFailed"),
    (image::ST_LINUX_PROC_STATUS, "WriteThreadProcStatusFailed"),
    (image::ST_LINUX_LSB_RELEASE, "WriteOsReleaseInfoFailed"),
    (image::ST_LINUX_CMD_LINE, "WriteCommandLineFailed"),
    (image::ST_LINUX_ENVIRON, "WriteEnvironmentFailed"),
    (image::ST_LINUX_AUXV, "WriteAuxvFailed"),
    (image::ST_LINUX_MAPS, "WriteMapsFailed"),
    (image::ST_LINUX_DSO_DEBUG, "WriteDSODebugStreamFailed"),
    (image::ST_MOZ_LINUX_LIMITS, "WriteLimitsFailed"),
    (image::ST_HANDLE_DATA, "WriteHandleDataStreamFailed"),
];

fn top_entry<'a>(soft: &'a Value, key: &str) -> Vec<&'a Value> {
    soft.as_array().map(|a| a.iter().filter_map(|e| e.get(key)).collect()).unwrap_or_default()
}
fn has_top_key(soft: &Value, key: &str) -> bool {
    soft.as_array().map(|a| a.iter().any(|e| e.get(key).is_some() || e.as_str() == Some(key))).unwrap_or(false)
}
fn init_entries<'a>(soft: &'a Value, key: &str) -> Vec<&'a Value> {
    let mut v = Vec::new();
    for init in top_entry(soft, "InitErrors") {
        if let Some(a) = init.as_array() {
            for e in a {
                if let Some(x) = e.get(key) {
                    v.push(x);
                }
            }
        }
    }
    v
}

/// Generic invariants of the soft-error stream of any Ok dump. Returns (kind, message).
pub fn generic_invariants(im: &Image) -> Vec<(String, String)> {
    let mut errs = Vec::new();
    let Some(raw) = im.raw.get(&image::ST_MOZ_SOFT_ERRORS) else {
        errs.push(("soft-error-stream-missing".into(), "the image has no soft-error stream".into()));
        return errs;
    };
    let soft: Value = match serde_json::from_slice(raw) {
        Ok(v) => v,
        Err(e) => {
            errs.push(("soft-error-stream-not-json".into(), format!("soft-error stream is not JSON: {e}")));
            return errs;
        }
    };
    if !soft.is_array() {
        errs.push(("soft-error-stream-not-a-list".into(), "soft-error stream is not a JSON list".into()));
        return errs;
    }
    for (st, key) in BEST_EFFORT {
        let present = im.has_stream(st);
        let reported = has_top_key(&soft, key);
        if !present && !reported {
            errs.push(("failed-step-not-reported".into(), format!("stream {st:#x} is absent but `{key}` is not in the soft-error list")));
        }
        if present && reported {
            errs.push(("reported-step-did-not-fail".into(), format!("`{key}` is reported although stream {st:#x} is present")));
        }
    }
    errs
}

fn expect_failspot_entries(soft: &Value, enabled: &[&str], nthreads_enumerated: usize, auxv_complete: bool) -> Vec<(String, String)> {
    let mut errs = Vec::new();
    let on = |n: &str| enabled.contains(&n);
    // StopProcess
    let stop = init_entries(soft, "StopProcessFailed");
    if on("StopProcess") {
        if !stop.iter().any(|v| v.get("Stop").and_then(|s| s.as_str()) == Some("EPERM")) {
            errs.push(("injected-failure-not-listed (StopProcess)".into(), format!("InitErrors/StopProcessFailed{{Stop:EPERM}} missing: {stop:?}")));
        }
    } else if !stop.is_empty() {
        errs.push(("failure-listed-but-not-injected (StopProcess)".into(), format!("{stop:?}")));
    }
    // FillMissingAuxvInfo (only reached when the direct values are incomplete)
    let aux = init_entries(soft, "FillMissingAuxvInfoErrors");
    if on("FillMissingAuxvInfo") && !auxv_complete {
        if !aux.iter().any(|v| v.as_array().map(|a| a.iter().any(|x| x.as_str() == Some("InvalidFormat"))).unwrap_or(false)) {
            errs.push(("injected-failure-not-listed (FillMissingAuxvInfo)".into(), format!("InitErrors/FillMissingAuxvInfoErrors[InvalidFormat] missing: {aux:?}")));
        }
    } else if !aux.is_empty() {
        errs.push(("failure-listed-but-not-injected (FillMissingAuxvInfo)".into(), format!("{aux:?}")));
    }
    // ThreadName
    let en = init_entries(soft, "EnumerateThreadsErrors");
    let name_failures: usize = en.iter().map(|v| v.as_array().map(|a| a.iter().filter(|x| x.get("ReadThreadNameFailed").is_some()).count()).unwrap_or(0)).sum();
    if on("ThreadName") {
        if name_failures != nthreads_enumerated {
            errs.push(("injected-failure-not-listed (ThreadName)".into(), format!("{name_failures} ReadThreadNameFailed entries for {nthreads_enumerated} threads")));
        }
    } else if name_failures != 0 {
        errs.push(("failure-listed-but-not-injected (ThreadName)".into(), format!("{name_failures} ReadThreadNameFailed entries")));
    }
    // SuspendThreads
    let su = top_entry(soft, "SuspendThreadsErrors");
    let fake = su.iter().any(|v| v.as_array().map(|a| a.iter().any(|x| x.get("PtraceAttachError").map(|p| p[0] == json!(1234) && p[1] == json!("EPERM")).unwrap_or(false))).unwrap_or(false));
    if on("SuspendThreads") != fake {
        errs.push((format!("{} (SuspendThreads)", if on("SuspendThreads") { "injected-failure-not-listed" } else { "failure-listed-but-not-injected" }), format!("{su:?}")));
    }
    // CpuInfoFileOpen
    let sy = top_entry(soft, "WriteSystemInfoErrors");
    let cpu = sy.iter().any(|v| v.as_array().map(|a| a.iter().any(|x| x.get("WriteCpuInformationFailed").is_some())).unwrap_or(false));
    if on("CpuInfoFileOpen") != cpu {
        errs.push((format!("{} (CpuInfoFileOpen)", if on("CpuInfoFileOpen") { "injected-failure-not-listed" } else { "failure-listed-but-not-injected" }), format!("{sy:?}")));
    }
    errs
}

fn dump_ok_t(t: &Target, o: &DumpOpts) -> Result<(Vec<u8>, Image), String> {
    t.settle();
    dump_ok(o)
}

fn dump_ok(o: &DumpOpts) -> Result<(Vec<u8>, Image), String> {
    let _g = dump::DUMP_LOCK.lock().unwrap_or_else(|e| e.into_inner());
    match dump::dump(o).0 {
        Outcome::Ok(img) => {
            let im = image::decode(&img);
            Ok((img, im))
        }
        Outcome::Err(e) => Err(format!("Err: {}", e.chars().take(200).collect::<String>())),
        Outcome::Panic { message, location } => Err(format!("panic at {location}: {message}")),
    }
}

pub fn run(rep: &mut Report, thorough: bool) {
    crate::util::install_quiet_panic_hook();
    rep.rule = "ALL 32 subsets of the five injectable fail points on each of several target shapes (exhaustive), random per-thread name-read faults, and natural failures (direct auxv pointing at unmapped program headers, thread-group leader exited so that /proc/<pid>/auxv etc. are unreadable, threads that vanish before attach). Oracle: dump is Ok; soft-error stream present, JSON list; each injected failure listed under its step and no uninjected one; `[]` when nothing failed; absent best-effort stream <=> its error key; all other streams equal (canonical form) to a no-fault dump of the same quiescent target. distinct = hash(fail-point subset, target shape); non-trivial = Ok dump".into();
    let mut rng = Rng::new(rep.seed.wrapping_mul(111_119));
    let shapes = if thorough { 100 } else { 2 };
    for shape in 0..shapes {
        let cfg = TargetCfg { sentinels: 1 + (shape % 4) * 2, max_spinners: 0, heartbeats: 0, sleepers: shape % 3, exiters: 0, names: true, regions: 2, elf_files: shape % 2, fds: 2 + shape, stack_pages_max: 2, null_sp_threads: 0, big_region_pages: 0 };
        // two pages with linker chains whose data is readable but unusable: a library name that is
        // not UTF-8, a name that runs into the end of the mapping
        let mut bad_chains: Vec<(u64, u64, String)> = Vec::new();
        let sc = match scen::build_target_with(&mut rng, &cfg, |b, rng| {
            // every second shape runs with an EMPTY environment: copying a file of length 0 is a
            // copy that succeeded, not a failed step
            if shape % 2 == 1 {
                b.opts.env = Some(Vec::new());
            }
            for v in [4u64, 5] {
                let i = b.anon(1, 2, 6, crate::spec::Fill::Zero);
                let base = b.spec.regions[i].addr;
                let (pokes, phdr, phnum, what) = crate::props::c02::hostile_chain(rng, base, v);
                b.spec.regions[i].pokes = pokes;
                bad_chains.push((phnum, phdr, what));
            }
        }) {
            Ok(s) => s,
            Err(e) => {
                rep.inconclusive(format!("target did not start: {e}"));
                continue;
            }
        };
        let t = &sc.target;
        let nthreads = t.manifest.tids.len() + 1;
        let mut volatile: Vec<u32> = vec![t.pid as u32];
        for (i, tid) in t.manifest.tids.iter().enumerate() {
            if sc.b.truth(i).is_none() {
                volatile.push(*tid as u32);
            }
        }
        let base_opts = DumpOpts::new(t.pid, t.pid);
        // reference: no fault
        let (ref_img, ref_im) = match dump_ok_t(t, &base_opts) {
            Ok(x) => x,
            Err(e) => {
                rep.violation("C11 dump failed without any injected failure", json!({"error": e}));
                continue;
            }
        };
        let ref_soft = ref_im.soft_errors().unwrap_or(Value::Null);
        rep.count("nothing_failed_dumps", 1);
        if ref_soft != json!([]) {
            rep.violation("C11 soft-error list not empty although nothing failed", json!({"soft_errors": ref_soft}));
        }
        for mask in 0..32u32 {
            let enabled: Vec<&str> = FAILSPOTS.iter().enumerate().filter(|(i, _)| mask & (1 << i) != 0).map(|(_, n)| *n).collect();
            let mut o = base_opts.clone();
            o.failspots = enabled.iter().map(|s| s.to_string()).collect();
            let desc = fnv(format!("{mask}/{shape}").as_bytes());
            let case = json!({"failspots": enabled, "threads": nthreads});
            match dump_ok_t(t, &o) {
                Ok((img, im)) => {
                    rep.case(desc, true);
                    rep.count("failspot_subsets_run", 1);
                    let mut errs = generic_invariants(&im);
                    if let Some(soft) = im.soft_errors() {
                        errs.extend(expect_failspot_entries(&soft, &enabled, nthreads, false));
                        if mask == 0 && soft != json!([]) {
                            errs.push(("not-empty-when-nothing-failed".into(), soft.to_string()));
                        }
                    }
                    // everything else intact
                    let dopts = DiffOpts { volatile_tids: volatile.clone(), ignore_names: enabled.contains(&"ThreadName"), ignore_soft_errors: true, ignore_cpu_fields: enabled.contains(&"CpuInfoFileOpen"), ignore_dso: false };
                    for d in canonical_diff_opts(&img, &im, &ref_img, &ref_im, &dopts) {
                        errs.push((format!("unrelated-stream-changed ({})", d.split(':').next().unwrap_or("").split(" differ").next().unwrap_or("")), d));
                    }
                    if enabled.contains(&"ThreadName") {
                        if im.names.as_ref().map(|n| n.len()) != Some(0) {
                            errs.push(("names-not-empty-under-ThreadName-failure".into(), format!("{:?}", im.names.as_ref().map(|n| n.len()))));
                        }
                    }
                    for (k, m) in errs {
                        rep.violation(&format!("C11 {k}"), json!({"case": case, "message": m}));
                    }
                    if rep.samples.len() < 3 && mask == 31 {
                        rep.sample(json!({"case": case, "soft_errors": im.soft_errors()}));
                    }
                }
                Err(e) => {
                    rep.case(desc, true);
                    rep.violation("C11 dump failed under injected best-effort failures", json!({"case": case, "error": e}));
                }
            }
        }
        // per-thread name faults
        let mut tids = vec![t.pid];
        tids.extend(t.manifest.tids.iter().copied());
        for _ in 0..(if thorough { 100 } else { 4 }) {
            let mut o = base_opts.clone();
            for tid in &tids {
                if rng.chance(1, 2) {
                    o.name_faults.push(*tid);
                }
            }
            let k = o.name_faults.len();
            match dump_ok_t(t, &o) {
                Ok((_, im)) => {
                    rep.case(fnv(format!("nf{:?}", o.name_faults).as_bytes()), true);
                    rep.count("per_thread_name_fault_dumps", 1);
                    let soft = im.soft_errors().unwrap_or(Value::Null);
                    let en = init_entries(&soft, "EnumerateThreadsErrors");
                    let n: usize = en.iter().map(|v| v.as_array().map(|a| a.iter().filter(|x| x.get("ReadThreadNameFailed").is_some()).count()).unwrap_or(0)).sum();
                    if n != k {
                        rep.violation("C11 per-thread name failures not all listed", json!({"injected": k, "listed": n, "soft_errors": soft}));
                    }
                    for (kk, m) in generic_invariants(&im) {
                        rep.violation(&format!("C11 {kk}"), json!({"message": m}));
                    }
                }
                Err(e) => rep.violation("C11 dump failed under injected best-effort failures", json!({"case": "per-thread name faults", "error": e})),
            }
        }
        // natural: linker data unreadable (direct auxv names an unmapped program header table)
        // ... or a readable table without any PT_DYNAMIC entry (as a static executable has): the
        // headers are the bytes of a pattern region, a single header, or the real table cut short
        let mut tables: Vec<(u64, u64)> = vec![(3, sc.holes.first().copied().unwrap_or(0x1000)), (3, 1), (3, 0x7fff_ffff_f000)];
        if let Some((pa, _)) = sc.pattern_regions.first() {
            tables.push((1, *pa));
            tables.push((3, *pa + 8 * rng.below(16)));
            tables.push((40, *pa));
        }
        if t.manifest.at_phdr != 0 {
            tables.push((1, t.manifest.at_phdr)); // PT_PHDR only: the dynamic segment comes later
        }
        // variant 4 only: its library name is not valid UTF-8, so the step fails (variant 5's name is
        // merely cut short by the end of the mapping, which is not a failure)
        if let Some((phnum, phdr, _)) = bad_chains.first() {
            tables.push((*phnum, *phdr));
        }
        for (phnum, phdr) in tables {
            let mut o = base_opts.clone();
            o.direct_auxv = Some([phnum, phdr, 0, 0]);
            match dump_ok_t(t, &o) {
                Ok((img, im)) => {
                    rep.case(fnv(format!("dso{phdr}").as_bytes()), true);
                    rep.count("natural_failure_dumps", 1);
                    let soft = im.soft_errors().unwrap_or(Value::Null);
                    if !has_top_key(&soft, "WriteDSODebugStreamFailed") || im.has_stream(image::ST_LINUX_DSO_DEBUG) {
                        rep.violation("C11 unreadable linker data not reported as a soft error", json!({"phdr": format!("{phdr:#x}"), "soft_errors": soft}));
                    }
                    let mut errs = generic_invariants(&im);
                    let dopts = DiffOpts { volatile_tids: volatile.clone(), ignore_soft_errors: true, ignore_dso: true, ..Default::default() };
                    for d in canonical_diff_opts(&img, &im, &ref_img, &ref_im, &dopts) {
                        errs.push((format!("unrelated-stream-changed ({})", d.split(':').next().unwrap_or("").split(" differ").next().unwrap_or("")), d));
                    }
                    for (kk, m) in errs {
                        rep.violation(&format!("C11 {kk}"), json!({"case": "unreadable linker data", "message": m}));
                    }
                }
                Err(e) => rep.violation("C11 dump failed because linker data is unreadable", json!({"phdr": format!("{phdr:#x}"), "error": e})),
            }
        }
    }
    // natural: thread-group leader exited (auxv unreadable, leader cannot be attached)
    for k in 0..(if thorough { 40 } else { 2 }) {
        let mut b = Builder::new();
        let n = 2 + k % 3;
        for _ in 0..n {
            b.sentinel(&mut rng, Mode::Pause, &StackShape::default(), None, None);
        }
        b.spec.leader_exit = true;
        let t = match Target::spawn(b.spec.clone(), &b.opts) {
            Ok(t) => t,
            Err(e) => {
                rep.inconclusive(format!("exited-leader target did not start: {e}"));
                continue;
            }
        };
        // wait (logically) until the leader is a zombie
        let t0 = std::time::Instant::now();
        while t.thread_status(t.pid).map(|s| s.0) != Some('Z') && t0.elapsed().as_secs() < 20 {
            std::thread::sleep(std::time::Duration::from_millis(1));
        }
        let worker = t.manifest.tids[0];
        let mut o = DumpOpts::new(t.pid, worker);
        o.stop_timeout_ms = Some(30);
        match dump_ok(&o) {
            Ok((_, im)) => {
                rep.case(fnv(format!("leader{k}").as_bytes()), true);
                rep.count("natural_failure_dumps", 1);
                rep.count("exited_leader_dumps", 1);
                let soft = im.soft_errors().unwrap_or(Value::Null);
                let text = soft.to_string();
                for (kk, m) in generic_invariants(&im) {
                    rep.violation(&format!("C11 {kk}"), json!({"case": "exited leader", "message": m, "soft_errors": soft}));
                }
                if !text.contains("FillMissingAuxvInfoFailed") && !text.contains("FillMissingAuxvInfoErrors") {
                    rep.violation("C11 unreadable auxv not reported", json!({"soft_errors": soft}));
                }
                let listed = im.threads.as_ref().map(|v| v.iter().any(|th| th.tid as i32 == t.pid)).unwrap_or(false);
                if !listed && !text.contains(&format!("{}", t.pid)) {
                    rep.violation("C11 unattachable leader neither listed nor reported", json!({"soft_errors": soft}));
                }
                if rep.samples.len() < 5 {
                    rep.sample(json!({"case": "thread-group leader exited", "soft_error_keys": soft.as_array().map(|a| a.iter().map(|e| e.as_object().map(|o| o.keys().cloned().collect::<Vec<_>>()).unwrap_or_else(|| vec![e.to_string()])).collect::<Vec<_>>())}));
                }
            }
            Err(e) => rep.violation("C11 dump failed on a target whose leader exited", json!({"error": e})),
        }
    }
    vanish_before_name_read(rep, &mut rng, if thorough { 100 } else { 3 });
    vanish_before_attach(rep, &mut rng, if thorough { 100 } else { 3 });
    cpuinfo_variants(rep, &mut rng, thorough);
    rep.require("failspot_subsets_run", 32);
    rep.require("natural_failure_dumps", 3);
    rep.require("nothing_failed_dumps", 1);
}


/// Machines report many shapes of /proc/cpuinfo. The worker dumps under a private mount
/// namespace in which a generated cpuinfo is bind-mounted over the real one; whatever the file
/// looks like, reading CPU information is best-effort: the dump is Ok and a failure is reported.
fn cpuinfo_variants(rep: &mut Report, rng: &mut Rng, thorough: bool) {
    use crate::props::c02::{run_worker, WorkerOutcome};
    let real = std::fs::read_to_string("/proc/cpuinfo").unwrap_or_default();
    if real.is_empty() {
        rep.inconclusive("cannot read /proc/cpuinfo".into());
        return;
    }
    let dir = crate::target::new_dir("cpuinfo");
    let replace = |text: &str, key: &str, val: Option<&str>| -> String {
        text.lines()
            .filter_map(|l| {
                if l.split(':').next().map(|k| k.trim()) == Some(key) {
                    val.map(|v| format!("{}: {}", l.split(':').next().unwrap(), v))
                } else {
                    Some(l.to_string())
                }
            })
            .collect::<Vec<_>>()
            .join("\n")
            + "\n"
    };
    let mut variants: Vec<(String, String, bool)> = Vec::new(); // (name, text, all fields present)
    for v in ["  Shanghai  ", "SiS SiS SiS", "E2K MACHINE", "Vortex86 SoC", "HygonGenuine", "GenuineIntelGenuineIntel", "x", ""] {
        variants.push((format!("vendor_id={v:?}"), replace(&real, "vendor_id", Some(v)), true));
    }
    variants.push(("no vendor_id line".into(), replace(&real, "vendor_id", None), true));
    variants.push(("no model line".into(), replace(&real, "model", None), false));
    variants.push(("no stepping line".into(), replace(&real, "stepping", None), false));
    variants.push(("no cpu family line".into(), replace(&real, "cpu family", None), false));
    variants.push(("empty stepping value".into(), replace(&real, "stepping", Some("")), false));
    variants.push(("non-numeric model".into(), replace(&real, "model", Some("unknown")), false));
    variants.push(("empty file".into(), String::new(), false));
    variants.push(("only blank lines".into(), "\n\n\n".into(), false));
    let mut many = String::new();
    for i in 0..(if thorough { 1024 } else { 300 }) {
        many.push_str(&format!("processor\t: {i}\nvendor_id\t: AuthenticAMD\ncpu family\t: 25\nmodel\t\t: 1\nmodel name\t: many cores\nstepping\t: 1\n\n"));
    }
    variants.push(("many processors".into(), many, true));
    variants.push(("arm-like (no x86 fields)".into(), "processor\t: 0\nBogoMIPS\t: 50.00\nFeatures\t: fp asimd\nCPU implementer\t: 0x41\n\n".into(), false));
    let sc = match scen::build_target(rng, &TargetCfg { sentinels: 2, max_spinners: 0, ..Default::default() }) {
        Ok(s) => s,
        Err(e) => {
            rep.inconclusive(format!("target did not start: {e}"));
            return;
        }
    };
    for (k, (name, text, complete)) in variants.iter().enumerate() {
        let path = format!("{dir}/cpuinfo-{k}");
        std::fs::write(&path, text).unwrap();
        let mut o = DumpOpts::new(sc.target.pid, sc.target.pid);
        o.cpuinfo_override = Some(path.clone());
        o.image_out = Some(format!("{dir}/image-{k}"));
        sc.target.settle();
        let r = run_worker(&o, false);
        rep.case(fnv(format!("cpuinfo/{name}").as_bytes()), true);
        rep.count("cpuinfo_variants_run", 1);
        let case = json!({"cpuinfo_variant": name});
        match r {
            WorkerOutcome::Ok => {
                let Ok(img) = std::fs::read(format!("{dir}/image-{k}")) else {
                    rep.inconclusive(format!("no image from worker for {name}"));
                    continue;
                };
                let im = image::decode(&img);
                for (kk, m) in generic_invariants(&im) {
                    rep.violation(&format!("C11 {kk}"), json!({"case": case, "message": m}));
                }
                let soft = im.soft_errors().unwrap_or(Value::Null);
                let reported = top_entry(&soft, "WriteSystemInfoErrors").iter().any(|v| v.as_array().map(|a| a.iter().any(|x| x.get("WriteCpuInformationFailed").is_some())).unwrap_or(false));
                if !*complete && !reported {
                    rep.violation("C11 incomplete CPU information not reported as a soft error", json!({"case": case, "soft_errors": soft}));
                }
                if *complete && reported {
                    rep.violation("C11 CPU information failure reported although every field is present", json!({"case": case, "soft_errors": soft}));
                }
                // the vendor string the machine reports (first 12 bytes)
                if *complete {
                    let vendor = text.lines().find(|l| l.starts_with("vendor_id")).and_then(|l| l.split(':').nth(1)).map(|v| v.trim().to_string()).unwrap_or_default();
                    if let Some(s) = &im.sysinfo {
                        let n = vendor.len().min(12);
                        if s.cpu[..n] != vendor.as_bytes()[..n] {
                            rep.violation("C18 system info vendor differs from the machine's cpuinfo", json!({"case": case, "vendor": vendor, "got": String::from_utf8_lossy(&s.cpu[..12])}));
                        }
                    }
                }
                if im.raw.get(&image::ST_LINUX_CPU_INFO).map(|b| b.as_slice()) != Some(text.as_bytes()) && !text.is_empty() {
                    rep.violation("C18 cpuinfo stream is not a copy of the machine's cpuinfo", json!({"case": case}));
                }
            }
            WorkerOutcome::Harness(e) => rep.inconclusive(format!("cpuinfo override unavailable: {e}")),
            other => rep.violation(
                &format!("C11 dump did not succeed when the machine's cpuinfo is unusual ({})", match &other { WorkerOutcome::Panic { location, .. } => format!("panic at {location}"), WorkerOutcome::Err(_) => "Err".to_string(), _ => "abort/timeout".to_string() }),
                json!({"case": case, "outcome": format!("{other:?}")}),
            ),
        }
    }
    let _ = std::fs::remove_dir_all(&dir);
    rep.require("cpuinfo_variants_run", 10);
}


/// Threads that exit after they were listed but before their name is read: the name read fails
/// naturally (ENOENT/ESRCH). That failure must be listed, and the dump must succeed.
fn vanish_before_name_read(rep: &mut Report, rng: &mut Rng, n: usize) {
    use minidump_writer::verif_hooks::{self, Point};
    use std::sync::atomic::{AtomicU64, Ordering};
    use std::sync::Arc;
    for k in 0..n {
        let mut b = Builder::new();
        b.sentinel(rng, Mode::Pause, &StackShape::default(), None, None);
        let mut exiters = Vec::new();
        for _ in 0..(2 + k % 3) {
            exiters.push(b.thread(ThreadKind::Exiter, Some(b"exiter".to_vec())));
        }
        b.sentinel(rng, Mode::Pause, &StackShape::default(), None, None);
        let t = match Target::spawn(b.spec.clone(), &b.opts) {
            Ok(t) => Arc::new(t),
            Err(e) => {
                rep.inconclusive(format!("target did not start: {e}"));
                continue;
            }
        };
        // which exiters leave: all but one
        let leave: Vec<(usize, i32)> = exiters.iter().skip(1).map(|&i| (i, t.manifest.tids[i])).collect();
        let vanished = Arc::new(AtomicU64::new(0));
        let (t2, l2, v2) = (t.clone(), leave.clone(), vanished.clone());
        let mut o = DumpOpts::new(t.pid, t.pid);
        o.failspots.push("StopProcess".into()); // the target keeps running, so the threads can leave
        let _g = dump::DUMP_LOCK.lock().unwrap_or_else(|e| e.into_inner());
        verif_hooks::set_sync(Some(Box::new(move |p| {
            if let Point::BeforeThreadName(tid) = p {
                if let Some((slot, _)) = l2.iter().find(|(_, x)| *x == tid) {
                    t2.ctl.set_slot(*slot, SLOT_EXIT_REQ, 1);
                    let t0 = std::time::Instant::now();
                    while std::path::Path::new(&format!("/proc/{}/task/{}", t2.pid, tid)).exists() && t0.elapsed().as_secs() < 20 {
                        std::thread::sleep(std::time::Duration::from_micros(200));
                    }
                    if !std::path::Path::new(&format!("/proc/{}/task/{}", t2.pid, tid)).exists() {
                        v2.fetch_add(1, Ordering::SeqCst);
                    }
                }
            }
        })));
        let (out, _) = dump::dump(&o);
        verif_hooks::set_sync(None);
        drop(_g);
        let gone = vanished.load(Ordering::SeqCst) as usize;
        rep.case(fnv(format!("vanish-name/{k}/{gone}").as_bytes()), gone > 0);
        rep.count("threads_vanished_before_name_read", gone as u64);
        match out {
            Outcome::Ok(img) => {
                let im = image::decode(&img);
                rep.count("natural_failure_dumps", 1);
                let soft = im.soft_errors().unwrap_or(Value::Null);
                let en = init_entries(&soft, "EnumerateThreadsErrors");
                let listed: usize = en.iter().map(|v| v.as_array().map(|a| a.iter().filter(|x| x.get("ReadThreadNameFailed").is_some()).count()).unwrap_or(0)).sum();
                if listed < gone {
                    rep.violation("C11 thread-name read failure (thread gone) not listed", json!({"threads_gone_before_their_name_was_read": gone, "ReadThreadNameFailed_entries": listed, "soft_errors": soft}));
                }
                for (kk, m) in generic_invariants(&im) {
                    rep.violation(&format!("C11 {kk}"), json!({"case": "threads vanish before name read", "message": m}));
                }
            }
            Outcome::Err(e) => rep.violation("C11 dump failed when threads vanished before their name was read", json!({"error": e.chars().take(200).collect::<String>()})),
            Outcome::Panic { message, location } => rep.violation(&format!("C11 panic at {location}"), json!({"panic": message})),
        }
    }
    rep.require("threads_vanished_before_name_read", 1);
}


/// Threads that were enumerated (and named) but are gone when the writer attaches to them: the
/// attach fails (ESRCH). That failure belongs to the "attaching to a thread" step and must be
/// listed under it, one entry per vanished thread, whatever the errno.
fn vanish_before_attach(rep: &mut Report, rng: &mut Rng, n: usize) {
    use minidump_writer::verif_hooks::{self, Point};
    use std::sync::atomic::{AtomicU64, Ordering};
    use std::sync::{Arc, Mutex};
    for k in 0..n {
        let mut b = Builder::new();
        b.sentinel(rng, Mode::Pause, &StackShape::default(), None, None);
        let mut exiters = Vec::new();
        for _ in 0..(2 + k % 3) {
            exiters.push(b.thread(ThreadKind::Exiter, Some(b"exiter".to_vec())));
        }
        b.sentinel(rng, Mode::Pause, &StackShape::default(), None, None);
        let t = match Target::spawn(b.spec.clone(), &b.opts) {
            Ok(t) => Arc::new(t),
            Err(e) => {
                rep.inconclusive(format!("target did not start: {e}"));
                continue;
            }
        };
        let leave: Vec<(usize, i32)> = exiters.iter().skip(k % 2).map(|&i| (i, t.manifest.tids[i])).collect();
        let vanished: Arc<Mutex<Vec<i32>>> = Arc::new(Mutex::new(Vec::new()));
        let count = Arc::new(AtomicU64::new(0));
        let (t2, l2, v2, c2) = (t.clone(), leave.clone(), vanished.clone(), count.clone());
        let mut o = DumpOpts::new(t.pid, t.pid);
        o.failspots.push("StopProcess".into()); // the target keeps running, so the threads can leave
        let _g = dump::DUMP_LOCK.lock().unwrap_or_else(|e| e.into_inner());
        verif_hooks::set_sync(Some(Box::new(move |p| {
            if let Point::BeforeAttach(tid) = p {
                if let Some((slot, _)) = l2.iter().find(|(_, x)| *x == tid) {
                    t2.ctl.set_slot(*slot, SLOT_EXIT_REQ, 1);
                    let t0 = std::time::Instant::now();
                    while std::path::Path::new(&format!("/proc/{}/task/{}", t2.pid, tid)).exists() && t0.elapsed().as_secs() < 20 {
                        std::thread::sleep(std::time::Duration::from_micros(200));
                    }
                    if !std::path::Path::new(&format!("/proc/{}/task/{}", t2.pid, tid)).exists() {
                        v2.lock().unwrap().push(tid);
                        c2.fetch_add(1, Ordering::SeqCst);
                    }
                }
            }
        })));
        let (out, _) = dump::dump(&o);
        verif_hooks::set_sync(None);
        drop(_g);
        let gone: Vec<i32> = vanished.lock().unwrap().clone();
        rep.case(fnv(format!("vanish-attach/{k}/{}", gone.len()).as_bytes()), !gone.is_empty());
        rep.count("threads_vanished_before_attach", gone.len() as u64);
        match out {
            Outcome::Ok(img) => {
                let im = image::decode(&img);
                rep.count("natural_failure_dumps", 1);
                let soft = im.soft_errors().unwrap_or(Value::Null);
                // entries under the suspend step that mention the thread
                let mut suspend_entries: Vec<Value> = Vec::new();
                if let Some(top) = soft.as_array() {
                    for e in top {
                        if let Some(list) = e.get("SuspendThreadsErrors").and_then(|v| v.as_array()) {
                            suspend_entries.extend(list.iter().cloned());
                        }
                    }
                }
                for tid in &gone {
                    let listed_thread = im.threads.as_ref().map(|v| v.iter().any(|th| th.tid as i32 == *tid)).unwrap_or(false);
                    let reported = suspend_entries.iter().any(|e| e.to_string().contains(&format!("[{tid},")) || e.to_string().contains(&format!(":{tid}}}")));
                    if !listed_thread && !reported {
                        rep.violation("C11 failed attach to a vanished thread not listed under the suspend step", json!({"tid": tid, "soft_errors": soft}));
                    }
                }
                for (kk, m) in generic_invariants(&im) {
                    rep.violation(&format!("C11 {kk}"), json!({"case": "threads vanish before attach", "message": m}));
                }
            }
            Outcome::Err(e) => rep.violation("C11 dump failed when threads vanished before the attach", json!({"error": e.chars().take(200).collect::<String>()})),
            Outcome::Panic { message, location } => rep.violation(&format!("C11 panic at {location}"), json!({"panic": message})),
        }
    }
    rep.require("threads_vanished_before_attach", 1);
}
