//! C20 — unreferenced-stack filtering keeps exactly the relevant stacks.

use crate::dump::{self, DumpOpts, Outcome};
use crate::elf::ElfSpec;
use crate::image;
use crate::report::Report;
use crate::rng::{fnv, Rng};
use crate::scen;
use crate::spec::*;
use crate::target::Target;
use crate::tspec::*;
use serde_json::json;

#[derive(Clone, Debug)]
enum Holder {
    None,
    /// aligned slot at this byte offset above sp holds `value`
    Slot { above_sp: u64, value: u64 },
    Misaligned { value: u64 },
    BelowSp { value: u64 },
    IpInMapping,
    /// blocked in a system call whose return address is the first byte after the r-x mapping
    IpAtEnd,
}

fn has_principal_error(soft: &serde_json::Value) -> bool {
    soft.to_string().contains("PrincipalMappingNotReferenced")
}

pub fn run(rep: &mut Report, thorough: bool) {
    crate::util::install_quiet_panic_hook();
    rep.rule = "targets of 1..24 sentinel threads on zero-filled stacks, each a {pointer holder at the first / last / a random aligned slot above sp with value in {start-1,start,mid,end-1,end,end+1}, misaligned holder, holder below sp, thread spinning inside the principal mapping, thread whose instruction pointer is the first byte after it, nothing}; with and without stack sanitization; principal address in {anonymous r-x mapping, anonymous rw- mapping, either piece of a library folded around an inaccessible page, file-backed ELF group, hole, inaccessible reservation directly behind the ELF group, 0, MAX}; with and without crash context. Oracle: included <=> ip in [start,end) or an aligned word at/above sp in the checker-read stack in [start,end); records and contexts always present; soft error when required. distinct = hash(holders, principal choice, ctx); non-trivial = Ok dump with >= 1 sentinel judged".into();
    let mut rng = Rng::new(rep.seed.wrapping_mul(202_021));
    let ntargets = if thorough { 4000 } else { 14 };
    for ti in 0..ntargets {
        let mut b = Builder::new();
        b.spec.dir = crate::target::new_dir("c20");
        let dir = b.spec.dir.clone();
        // principal candidates
        let rx = b.anon(3, 5, 5, Fill::Zero);
        let (rxa, rxl) = (b.spec.regions[rx].addr, b.spec.regions[rx].len);
        // a second executable mapping directly behind it: a thread can then sit with its
        // instruction pointer on the first byte AFTER the principal mapping
        // (rwx, so that the kernel keeps it a separate mapping instead of merging the two)
        let rx2 = b.anon(1, 0, 7, Fill::Zero);
        assert_eq!(b.spec.regions[rx2].addr, rxa + rxl);
        // a principal candidate WITHOUT execute permission (heap-like data a crash handler may care about)
        // (in every second target it is the LOWEST mapping of the whole process, far below the
        // executable image: the one mapping the writer's entry-point swap moves out of address order)
        let nx = if ti % 2 == 1 {
            b.alloc(2, 5);
            b.add_region(Region { addr: 0x800_0000, len: 2 * PAGE, prot: 6, kind: RegionKind::Anon, fill: Fill::Zero, pokes: Vec::new(), unlink_after: false })
        } else {
            b.anon(2, 5, 6, Fill::Zero)
        };
        let (nxa, nxl) = (b.spec.regions[nx].addr, b.spec.regions[nx].len);
        // a library whose two pieces have an inaccessible anonymous page between them and no
        // executable piece in front of it: r--p file / ---p anon / r-xp file. The writer folds the
        // three lines into one mapping; that whole mapping is then the principal one.
        let (fold_a, fold_len) = {
            let path = format!("{dir}/libfolded.so");
            std::fs::write(&path, vec![0x90u8; 3 * PAGE as usize]).expect("write");
            let a = b.alloc(3, 6);
            b.add_region(Region { addr: a, len: PAGE, prot: 4, kind: RegionKind::File { path: path.clone(), offset: 0 }, fill: Fill::Keep, pokes: Vec::new(), unlink_after: false });
            b.add_region(Region { addr: a + PAGE, len: PAGE, prot: 0, kind: RegionKind::Anon, fill: Fill::Keep, pokes: Vec::new(), unlink_after: false });
            b.add_region(Region { addr: a + 2 * PAGE, len: PAGE, prot: 5, kind: RegionKind::File { path, offset: 2 * PAGE }, fill: Fill::Keep, pokes: Vec::new(), unlink_after: false });
            (a, 3 * PAGE)
        };
        let mut files = Vec::new();
        let espec = ElfSpec::random(&mut rng);
        scen::add_elf_file(&mut b, &mut rng, &dir, "libprincipal.so", espec, false, &mut files);
        let (fa, fl) = (files[0].base, files[0].size);
        // an inaccessible private anonymous reservation right behind the library (what the dynamic
        // linker leaves there): the writer widens the module's reported size over it, but it is not
        // part of the library's mapping, so an address inside it "matches no mapping"
        assert_eq!(b.cursor(), fa + fl);
        let resv = b.anon(2, 0, 0, Fill::Keep);
        let resv_addr = b.spec.regions[resv].addr;
        let hole = rxa - 2 * PAGE;
        let pchoice = if ti < 5 { ti as u64 } else if ti == 5 { 6 } else if ti == 6 || ti == 7 { 7 } else if ti == 8 || ti == 9 { 8 } else { rng.below(9) };
        let (principal, range): (Option<u64>, Option<(u64, u64)>) = match pchoice {
            0 | 5 => (Some(rxa + rng.below(rxl)), Some((rxa, rxa + rxl))),
            1 => (Some(fa + rng.below(fl)), Some((fa, fa + fl))),
            2 => (Some(hole), None),
            3 => (Some(0), None),
            6 => (Some(resv_addr + rng.below(2 * PAGE)), None),
            7 => (Some(nxa + rng.below(nxl)), Some((nxa, nxa + nxl))),
            // address in the LAST piece (ti even) or the first piece (ti odd) of the folded library
            8 => (Some(if ti % 2 == 0 { fold_a + 2 * PAGE + rng.below(PAGE) } else { fold_a + rng.below(PAGE) }), Some((fold_a, fold_a + fold_len))),
            _ => (Some(u64::MAX), None),
        };
        let (lo, hi) = range.unwrap_or(if pchoice == 6 { (fa, fa + fl) } else { (rxa, rxa + rxl) }); // pointers still aim at the r-x region when there is no mapping
        let n = if ti % 5 == 4 || (5..10).contains(&ti) { 24 } else { rng.range(1, 8) as usize };
        let mut holders = Vec::new();
        for k in 0..n {
            let pages = rng.range(1, 3);
            let sp_off = (rng.below(pages * PAGE - 256) & !7) + if rng.chance(1, 4) { 4 } else { 0 };
            let sp_aligned_off = (sp_off + 7) & !7;
            let room = pages * PAGE - sp_aligned_off;
            let values = [lo.wrapping_sub(1), lo, lo + (hi - lo) / 2, hi - 1, hi, hi + 1, lo + 8];
            let h = match (k + ti as usize) % 8 {
                7 => Holder::IpAtEnd,
                0 => Holder::None,
                1 => Holder::Slot { above_sp: 0, value: *rng.pick(&values) },
                2 => Holder::Slot { above_sp: room - 8, value: *rng.pick(&values) },
                3 => Holder::Slot { above_sp: rng.below(room / 8) * 8, value: *rng.pick(&values) },
                4 => Holder::Misaligned { value: lo + 16 },
                5 => Holder::BelowSp { value: lo + 24 },
                _ => Holder::IpInMapping,
            };
            let mut slots = Vec::new();
            match &h {
                Holder::Slot { above_sp, value } => slots.push((sp_aligned_off + above_sp, *value)),
                Holder::Misaligned { value } => slots.push((sp_aligned_off + 16 + 4, *value)),
                Holder::BelowSp { value } => {
                    if sp_aligned_off >= 16 {
                        slots.push((sp_aligned_off - 16, *value))
                    }
                }
                _ => {}
            }
            let shape = StackShape { pages, sp_offset: sp_off as i64, fill_pattern: false, slots, low: k % 3 == 2, ..Default::default() };
            let at_end = matches!(h, Holder::IpAtEnd) && !b.sentinels.iter().any(|s| s.stub_addr == rxa + rxl - STUB_PAUSE_AFTER_SYSCALL);
            let stub_at = if matches!(h, Holder::IpInMapping) {
                Some((rx, rxa + 64 + 32 * k as u64))
            } else if at_end {
                // the pause stub straddles the seam: `syscall` ends exactly at the end of the r-x mapping
                Some((rx, rxa + rxl - STUB_PAUSE_AFTER_SYSCALL))
            } else {
                None
            };
            let mode = if at_end { Mode::Pause } else if k % 5 == 1 { Mode::Spin } else { Mode::Pause };
            b.sentinel(&mut rng, mode, &shape, None, stub_at);
            if at_end {
                // split the poked code between the two mappings
                let addr = rxa + rxl - STUB_PAUSE_AFTER_SYSCALL;
                let pi = b.spec.regions[rx].pokes.iter().position(|(a, _)| *a == addr).unwrap();
                let code = b.spec.regions[rx].pokes[pi].1.clone();
                b.spec.regions[rx].pokes[pi].1.truncate(STUB_PAUSE_AFTER_SYSCALL as usize);
                b.spec.regions[rx2].pokes.push((rxa + rxl, code[STUB_PAUSE_AFTER_SYSCALL as usize..].to_vec()));
                rep.count("threads_with_ip_one_past_the_end_of_a_mapping", 1);
            }
            holders.push(h);
        }
        let t = match Target::spawn(b.spec.clone(), &b.opts) {
            Ok(t) => t,
            Err(e) => {
                rep.inconclusive(format!("target did not start: {e}"));
                continue;
            }
        };
        let lines = t.maps();
        // the checker's idea of the principal mapping must be the kernel's
        if let (Some(p), Some((a, e))) = (principal, range) {
            let ok = lines.iter().any(|l| l.start <= p && p < l.end && ((l.start == a && l.end == e) || l.name.contains('/')));
            if !ok {
                rep.inconclusive(format!("principal mapping [{a:#x},{e:#x}) is not a line of the target's memory map"));
                continue;
            }
        }
        for with_ctx in [false, true] {
            let mut o = DumpOpts::new(t.pid, t.pid);
            o.skip_unreferenced = true;
            o.principal = principal;
            // sanitization is applied to what is WRITTEN; which stacks are kept is decided on the
            // target's real stack contents
            o.sanitize = (ti + with_ctx as u64) % 2 == 1;
            if o.sanitize {
                rep.count("dumps_with_sanitization_and_skipping", 1);
            }
            let mut crash: Option<(i32, u64, u64)> = None; // tid, sp, ip
            if with_ctx {
                // crash registers: the ip cycles through {the thread's own, first byte, last byte,
                // one past the end, one before the start, elsewhere}; at the two ends the crash
                // thread is preferably one that holds no pointer, so that the ip alone decides
                let ipk = ti as usize % 6;
                let plain: Vec<usize> = (0..n).filter(|&i| matches!(holders[i], Holder::None | Holder::Misaligned { .. } | Holder::BelowSp { .. })).collect();
                let ci = if (ipk == 2 || ipk == 3) && !plain.is_empty() { *rng.pick(&plain) } else { rng.usize_below(n) };
                let s = &b.sentinels[ci];
                let tid = t.manifest.tids[s.index];
                let ip = [s.stub_addr + 1, lo, hi - 1, hi, lo.wrapping_sub(1), rxa + 2 * PAGE + 5][ipk];
                let sp = s.regs.gpr[RSP];
                let mut crng = rng.fork(9);
                o.blamed = tid;
                o.crash = Some(dump::CrashSpec { gregs: scen::crash_gregs(&mut crng, sp, ip), fpstate: crng.bytes(512), signo: 11, code: 1, addr: 0, tid, noise_seed: 0 });
                crash = Some((tid, sp, ip));
            }
            let (out, _) = {
                let _g = dump::DUMP_LOCK.lock().unwrap_or_else(|e| e.into_inner());
                dump::dump(&o)
            };
            let desc = fnv(format!("{holders:?}/{pchoice}/{with_ctx}").as_bytes());
            let case = json!({"principal": principal.map(|p| format!("{p:#x}")), "principal_mapping": range.map(|(a, b)| format!("[{a:#x},{b:#x})")), "threads": n, "with_crash_context": with_ctx, "holders": holders.iter().take(8).map(|h| format!("{h:?}")).collect::<Vec<_>>()});
            match out {
                Outcome::Ok(img) => {
                    let im = image::decode(&img);
                    let threads = im.threads.clone().unwrap_or_default();
                    let soft = im.soft_errors().unwrap_or(serde_json::Value::Null);
                    let mut judged = 0;
                    let mut crash_refs: Option<bool> = None;
                    for (k, s) in b.sentinels.iter().enumerate() {
                        let tid = t.manifest.tids[s.index];
                        let Some(th) = threads.iter().find(|th| th.tid as i32 == tid) else {
                            rep.violation("C20 thread record missing", json!({"case": case, "tid": tid}));
                            continue;
                        };
                        if th.ctx.is_none() || th.ctx_size != 1232 {
                            rep.violation("C20 context of a thread missing", json!({"case": case, "tid": tid}));
                            continue;
                        }
                        let is_crash = crash.map(|c| c.0 == tid).unwrap_or(false);
                        let (sp, ip) = if is_crash { (crash.unwrap().1, crash.unwrap().2) } else { (th.ctx.as_ref().unwrap().rsp(), th.ctx.as_ref().unwrap().rip) };
                        // checker-read stack: from the page of sp to the end of its mapping line
                        let page = sp & !4095;
                        let Some(l) = lines.iter().find(|l| l.start <= sp && sp < l.end) else { continue };
                        let Ok(stack) = t.read_mem(page, (l.end - page) as usize) else { continue };
                        let mut referenced = false;
                        if let Some((a, e)) = range {
                            if a <= ip && ip < e {
                                referenced = true;
                            }
                            let mut off = ((sp - page) as usize + 7) & !7;
                            while off + 8 <= stack.len() {
                                let w = u64::from_le_bytes(stack[off..off + 8].try_into().unwrap());
                                if a <= w && w < e {
                                    referenced = true;
                                    break;
                                }
                                off += 8;
                            }
                        }
                        if is_crash {
                            crash_refs = Some(referenced);
                        }
                        let included = th.stack_size > 0;
                        judged += 1;
                        rep.count("threads_judged", 1);
                        rep.count(if referenced { "referencing_threads" } else { "non_referencing_threads" }, 1);
                        if included != referenced {
                            // classify the boundary case for the signature
                            let h = &holders[k];
                            let boundary = match h {
                                Holder::Slot { value, .. } if range.map(|(_, e)| *value == e).unwrap_or(false) => " (word equals the one-past-the-end address)",
                                _ if range.map(|(_, e)| ip == e).unwrap_or(false) => " (ip equals the one-past-the-end address)",
                                _ => "",
                            };
                            rep.violation(
                                &format!("C20 stack {} although it {} the principal mapping{boundary}", if included { "included" } else { "excluded" }, if referenced { "references" } else { "does not reference" }),
                                json!({"case": case, "tid": tid, "holder": format!("{h:?}"), "sp": format!("{sp:#x}"), "ip": format!("{ip:#x}"), "crash_thread": is_crash}),
                            );
                        }
                    }
                    // soft error
                    let must_report = range.is_none() || (with_ctx && crash_refs == Some(false));
                    if must_report {
                        rep.count("soft_error_required_cases", 1);
                        if !has_principal_error(&soft) {
                            rep.violation("C20 missing soft error for an unreferenced / unmatched principal mapping", json!({"case": case, "soft_errors": soft}));
                        }
                    }
                    rep.case(desc, judged > 0);
                    if rep.samples.len() < 4 {
                        rep.sample(case.clone());
                    }
                }
                Outcome::Err(e) => {
                    rep.case(desc, true);
                    rep.violation("C20 dump failed with stack skipping enabled", json!({"case": case, "error": e.chars().take(200).collect::<String>()}));
                }
                Outcome::Panic { message, location } => {
                    rep.case(desc, true);
                    rep.violation(&format!("C20 panic at {location}"), json!({"case": case, "panic": message}));
                }
            }
        }
    }
    rep.require("threads_judged", 30);
    rep.require("referencing_threads", 5);
    rep.require("non_referencing_threads", 5);
    rep.require("soft_error_required_cases", 2);
    rep.require("threads_with_ip_one_past_the_end_of_a_mapping", 2);
}
