//! C06 — captured stacks contain the live stack.

use crate::dump::{self, CrashSpec, DumpOpts, Outcome};
use crate::image;
use crate::report::Report;
use crate::rng::{fnv, Rng};
use crate::scen;
use crate::spec::*;
use crate::target::{MapLine, Target};
use crate::tspec::*;
use serde_json::json;

pub const GUARD_DISTANCE: u64 = 1024 * 1024;

pub struct StackVerdict {
    pub errors: Vec<(String, String)>,
    pub shortened: bool,
    pub guard_case: bool,
    pub bytes_compared: u64,
}

/// Judge one listed thread's stack. `sp` is the stack pointer the writer must use for this
/// thread (its own context, or the crash context for the blamed thread).
#[allow(clippy::too_many_arguments)]
pub fn judge_stack(t: &Target, lines: &[MapLine], img: &[u8], th: &image::Thread, sp: u64, position: usize, limit_set: bool, is_crash_thread: bool, compare_bytes: bool) -> StackVerdict {
    let mut v = StackVerdict { errors: Vec::new(), shortened: false, guard_case: false, bytes_compared: 0 };
    let page = sp & !4095;
    let line = lines.iter().find(|l| l.start <= sp && sp < l.end);
    let readable = line.map(|l| l.perms.starts_with('r')).unwrap_or(false);
    let start = th.stack_start;
    let len = th.stack_size as u64;
    if readable {
        let l = line.unwrap();
        let full_len = l.end - page;
        if len == 0 {
            v.errors.push(("stack-empty".into(), format!("thread {} has sp {sp:#x} in readable memory but an empty stack region", th.tid)));
            return v;
        }
        if !(start <= sp && sp < start + len) {
            v.errors.push(("sp-not-contained".into(), format!("thread {}: region [{start:#x},+{len}) does not contain sp {sp:#x} (in-page offset {})", th.tid, sp & 4095)));
        }
        let shortened = start != page || start + len != l.end;
        v.shortened = len < full_len;
        if shortened {
            // the only sanctioned deviation from [page, mapping end) is shortening
            if !limit_set {
                v.errors.push(("shortened-without-limit".into(), format!("thread {}: region [{start:#x},+{len}) is not [page {page:#x}, mapping end {:#x}) although no size limit is set", th.tid, l.end)));
            } else {
                if position < 20 {
                    v.errors.push(("shortened-base-thread".into(), format!("thread {} at list position {position} (< 20) was shortened to {len} bytes", th.tid)));
                }
                if is_crash_thread {
                    v.errors.push(("shortened-crash-thread".into(), format!("crash-context thread {} was shortened to {len} bytes", th.tid)));
                }
                if len > 2048 {
                    v.errors.push(("shortened-too-long".into(), format!("thread {}: shortened region has {len} bytes (> 2 KiB) and does not reach the mapping end", th.tid)));
                }
                if start > sp {
                    v.errors.push(("shortened-starts-above-sp".into(), format!("thread {}: shortened region starts at {start:#x} above sp {sp:#x}", th.tid)));
                }
                if start < page {
                    v.errors.push(("starts-below-sp-page".into(), format!("thread {}: region starts at {start:#x}, below the page of sp {sp:#x}", th.tid)));
                }
                if start + len > l.end {
                    v.errors.push(("extends-past-mapping".into(), format!("thread {}: region ends at {:#x} past the mapping end {:#x}", th.tid, start + len, l.end)));
                }
            }
        }
        // bytes from sp upward equal the target's memory
        if compare_bytes && start <= sp && sp < start + len {
            let off = (sp - start) as usize;
            let got = &img[th.stack_rva as usize + off..(th.stack_rva as u64 + len) as usize];
            match t.read_mem(sp, got.len()) {
                Ok(truth) => {
                    v.bytes_compared = got.len() as u64;
                    if truth != got {
                        let i = (0..got.len()).find(|&i| got[i] != truth[i]).unwrap();
                        v.errors.push(("stack-bytes-differ".into(), format!("thread {}: captured stack differs from target memory at address {:#x}", th.tid, sp + i as u64)));
                    }
                }
                Err(e) => v.errors.push(("HARNESS-read".into(), e)),
            }
        }
    } else {
        v.guard_case = true;
        // first plausible (readable or writable) mapping above, within the guard distance
        let cand = lines.iter().filter(|l| l.start > page && (l.perms.starts_with('r') || l.perms.as_bytes()[1] == b'w')).map(|l| l.start).min();
        let within = cand.filter(|c| *c - page <= GUARD_DISTANCE + 4096);
        let strictly_within = cand.filter(|c| *c - page <= GUARD_DISTANCE - 4096);
        if len == 0 {
            if let Some(c) = strictly_within {
                v.errors.push(("guard-stack-missed".into(), format!("thread {}: sp {sp:#x} is unmapped/guard, a plausible stack mapping starts at {c:#x} ({} pages above) but the region is empty", th.tid, (c - page) / 4096)));
            }
        } else {
            match within {
                Some(c) if c == start => {}
                _ => v.errors.push(("guard-wrong-start".into(), format!("thread {}: sp {sp:#x} is unmapped/guard; region starts at {start:#x} but the first plausible mapping above is {cand:x?}", th.tid))),
            }
        }
    }
    v
}

pub struct Plan {
    pub threads: usize,
    pub limit: Option<u64>,
    pub crash_at: Option<usize>,
}

pub fn estimate(nthreads: u64) -> u64 {
    // position of the buffer after the thread array + 8 KiB per thread + 64 KiB
    let pos = 32 + 18 * 12 + 4 + 48 * nthreads;
    pos + 8192 * nthreads + 65536
}

pub fn run(rep: &mut Report, thorough: bool) {
    crate::util::install_quiet_panic_hook();
    rep.rule = "sentinel threads on private stacks (1..64 pages, address-derived fill) with the stack pointer at chosen in-page offsets (stratified sample incl. 0,8,2040,2047,2048,2049,4088,4095 in quick; all 4096 offsets across the thorough run), in the first/last page, or in an unmapped / PROT_NONE guard 1,255,256,257 pages below the stack; thread counts {1,19,20,21,40,64}; size limits {none,0,estimate-1,estimate,estimate+1,huge}; crash-context thread at list position >= 20. Oracle: region vs. the thread's own context, the checker's /proc/<pid>/maps and /proc/<pid>/mem. distinct = hash(thread count, limit class, per-thread sp offsets); non-trivial = Ok dump with >= 1 stack judged".into();
    let mut rng = Rng::new(rep.seed.wrapping_mul(616_161));
    let counts: Vec<usize> = if thorough { vec![1, 2, 19, 20, 21, 22, 40, 64] } else { vec![1, 20, 21, 40] };
    let limit_classes: Vec<u8> = vec![0, 1, 2, 3, 4, 5];
    let rounds = if thorough { 150 } else { 3 };
    let mut offset_cursor: u64 = rep.seed.wrapping_mul(977) % 4096;
    for _round in 0..rounds {
        for &n in &counts {
            // ---- target: n-1 sentinel threads with shaped stacks
            let mut b = Builder::new();
            b.spec.dir = crate::target::new_dir("c06");
            let exec = b.anon(1, 4, 5, Fill::Pattern);
            let exec_addr = b.spec.regions[exec].addr;
            let mut offs = Vec::new();
            for k in 0..n.saturating_sub(1) {
                let pages = *rng.pick(&[1u64, 1, 2, 3, 8, 64]);
                let special = [0u64, 8, 2040, 2047, 2048, 2049, 4088, 4095, 1, 2056, 3000];
                let in_page = if k < special.len() && rng.chance(1, 2) {
                    special[k]
                } else if thorough {
                    offset_cursor = (offset_cursor + 1) % 4096;
                    offset_cursor
                } else {
                    rng.below(4096)
                };
                let anyp = rng.below(pages);
                let which_page = *rng.pick(&[0u64, pages - 1, anyp]);
                let guard = rng.chance(1, 8);
                let (sp_offset, guard_map) = if guard {
                    // 300 / 1200 pages: an inaccessible mapping that extends MORE than the guard
                    // distance above the stack pointer (nothing plausible within reach)
                    let d = *rng.pick(&[1u64, 2, 255, 256, 257, 300, 1200]);
                    let gm = if rng.chance(1, 2) || d >= 300 { d } else { 0 };
                    (-((d * PAGE) as i64) + in_page as i64, gm)
                } else {
                    ((which_page * PAGE + in_page) as i64, 0)
                };
                offs.push(sp_offset);
                // some stacks are private FILE mappings with an inaccessible tail of the same file
                // right above them: the writer's merged mapping reaches over unreadable memory
                let tail = if !guard && rng.chance(1, 5) { *rng.pick(&[1u64, 8]) } else { 0 };
                if tail > 0 {
                    rep.count("file_backed_stacks_with_inaccessible_tail", 1);
                }
                let shape = StackShape { pages, sp_offset, guard_mapping_pages: guard_map, fill_pattern: true, slots: Vec::new(), prot: 6, noaccess_file_tail_pages: tail, low: k % 4 == 1 };
                let mode = if k % 7 == 3 { Mode::Spin } else { Mode::Pause };
                b.sentinel(&mut rng, mode, &shape, None, None);
            }
            let t = match Target::spawn(b.spec.clone(), &b.opts) {
                Ok(t) => t,
                Err(e) => {
                    rep.inconclusive(format!("target with {n} threads did not start: {e}"));
                    continue;
                }
            };
            let lines = t.maps();
            for &lc in &limit_classes {
                let nthreads = n as u64;
                let est = estimate(nthreads);
                let limit = match lc {
                    0 => None,
                    1 => Some(0),
                    2 => Some(est - 1),
                    3 => Some(est),
                    4 => Some(est + 1),
                    _ => Some(1u64 << 40),
                };
                // crash context on a sentinel thread (late in the list when possible)
                let crash_idx = if !b.sentinels.is_empty() && rng.chance(1, 2) { Some(if rng.chance(2, 3) { b.sentinels.len() - 1 } else { rng.usize_below(b.sentinels.len()) }) } else { None };
                let mut o = DumpOpts::new(t.pid, t.pid);
                o.size_limit = limit;
                let mut crash_tid = None;
                let mut crash_sp = 0;
                if let Some(ci) = crash_idx {
                    let s = &b.sentinels[ci];
                    let tid = t.manifest.tids[s.index];
                    o.blamed = tid;
                    // the crash context's stack pointer: another in-page offset on the same stack
                    crash_sp = if s.stack_len > 0 && rng.chance(1, 2) { s.stack_base + rng.below(s.stack_len) } else { s.regs.gpr[RSP] };
                    let mut crng = rng.fork(1);
                    o.crash = Some(CrashSpec { gregs: scen::crash_gregs(&mut crng, crash_sp, exec_addr + 200), fpstate: crng.bytes(512), signo: 11, code: 1, addr: 0, tid, noise_seed: 0 });
                    crash_tid = Some(tid as u32);
                }
                let (out, _) = {
                    let _g = dump::DUMP_LOCK.lock().unwrap_or_else(|e| e.into_inner());
                    dump::dump(&o)
                };
                let desc = fnv(format!("{n}/{lc}/{offs:?}/{crash_idx:?}").as_bytes());
                match out {
                    Outcome::Ok(img) => {
                        let im = image::decode(&img);
                        let mut judged = 0;
                        for (pos, th) in im.threads.as_ref().map(|v| v.as_slice()).unwrap_or(&[]).iter().enumerate() {
                            let Some(ctx) = &th.ctx else { continue };
                            let is_sentinel = t.manifest.tids.contains(&(th.tid as i32));
                            let is_crash = Some(th.tid) == crash_tid;
                            let sp = if is_crash { crash_sp } else { ctx.rsp() };
                            // non-sentinel threads (main) run: their bytes are not compared
                            let sv = judge_stack(&t, &lines, &img, th, sp, pos, limit.is_some(), is_crash, is_sentinel);
                            judged += 1;
                            rep.count("stacks_judged", 1);
                            rep.count("stack_bytes_compared", sv.bytes_compared);
                            if sv.shortened {
                                rep.count("shortened_stacks_seen", 1);
                            }
                            if sv.guard_case {
                                rep.count("guard_or_unmapped_sp_cases", 1);
                            }
                            for (k, m) in sv.errors {
                                let cls = if k == "sp-not-contained" { format!("{k} (limit {}, in-page offset {})", if limit.is_some() { "set" } else { "none" }, if sp & 4095 >= 2048 { ">= 2048" } else { "< 2048" }) } else { k.clone() };
                                rep.violation(&format!("C06 stack {cls}"), json!({"threads": n, "limit": limit, "position": pos, "tid": th.tid, "sp": format!("{sp:#x}"), "region": format!("{:#x}+{}", th.stack_start, th.stack_size), "crash_thread": is_crash, "message": m}));
                            }
                        }
                        rep.case(desc, judged > 0);
                        if rep.samples.len() < 4 {
                            rep.sample(json!({"threads": n, "limit": limit, "crash_thread_position": crash_idx, "sp_offsets_from_stack_base": offs.iter().take(6).collect::<Vec<_>>()}));
                        }
                    }
                    Outcome::Err(e) => {
                        rep.case(desc, false);
                        rep.count("dumps_no_verdict(err)", 1);
                        if rep.counter("dumps_no_verdict(err)") <= 3 {
                            rep.note(&format!("no verdict (Err): {}", e.chars().take(160).collect::<String>()));
                        }
                    }
                    Outcome::Panic { message, location } => {
                        rep.case(desc, true);
                        rep.violation(&format!("C06 panic at {location}"), json!({"threads": n, "limit": limit, "panic": message}));
                    }
                }
            }
        }
    }
    exited_leader_lane(rep, &mut rng, if thorough { 6 } else { 1 });
    rep.require("stacks_judged", 50);
    rep.require("exited_leader_stacks_judged", 2);
    rep.require("shortened_stacks_seen", 1);
    rep.require("guard_or_unmapped_sp_cases", 1);
}


/// A process whose main thread has left (`pthread_exit` from `main`, a raw exit syscall) while its
/// workers run on. The workers are listed and their stack pointers lie in readable memory, so the
/// statement applies to them like to any other thread.
fn exited_leader_lane(rep: &mut Report, rng: &mut Rng, n: usize) {
    for k in 0..n {
        let mut b = Builder::new();
        for _ in 0..2 {
            b.sentinel(rng, Mode::Pause, &StackShape::default(), None, None);
        }
        b.spec.leader_exit = true;
        let t = match Target::spawn(b.spec.clone(), &b.opts) {
            Ok(t) => t,
            Err(e) => {
                rep.inconclusive(format!("exited-leader target did not start: {e}"));
                continue;
            }
        };
        let t0 = std::time::Instant::now();
        while t.thread_status(t.pid).map(|s| s.0) != Some('Z') && t0.elapsed().as_secs() < 20 {
            std::thread::sleep(std::time::Duration::from_millis(1));
        }
        if t.thread_status(t.pid).map(|s| s.0) != Some('Z') {
            rep.inconclusive("the leader of an exited-leader target never became a zombie".into());
            continue;
        }
        // (the harness reads the memory map through a live task: /proc/<pid>/maps is empty now)
        let lines = t.maps();
        let mut o = DumpOpts::new(t.pid, t.manifest.tids[b.sentinels[0].index]);
        o.stop_timeout_ms = Some(30);
        let (out, _) = {
            let _g = dump::DUMP_LOCK.lock().unwrap_or_else(|e| e.into_inner());
            dump::dump(&o)
        };
        rep.case(fnv(format!("exited-leader/{k}").as_bytes()), true);
        match out {
            Outcome::Ok(img) => {
                let im = image::decode(&img);
                for (pos, th) in im.threads.as_ref().map(|v| v.as_slice()).unwrap_or(&[]).iter().enumerate() {
                    let Some(ctx) = &th.ctx else { continue };
                    if !t.manifest.tids.contains(&(th.tid as i32)) {
                        continue;
                    }
                    let sp = ctx.rsp();
                    rep.count("exited_leader_stacks_judged", 1);
                    if th.stack_size == 0 && lines.iter().any(|l| l.start <= sp && sp < l.end && l.perms.starts_with('r')) {
                        rep.violation(
                            "C06 stack empty on a target whose thread-group leader has exited (memory map taken from the zombie leader)",
                            json!({"tid": th.tid, "sp": format!("{sp:#x}"), "soft_errors": im.soft_errors(), "note": "/proc/<pid>/maps of an exited leader reads empty; /proc/<pid>/task/<live tid>/maps does not"}),
                        );
                        continue;
                    }
                    let sv = judge_stack(&t, &lines, &img, th, sp, pos, false, false, true);
                    rep.count("stack_bytes_compared", sv.bytes_compared);
                    for (kind, m) in sv.errors {
                        rep.violation(&format!("C06 stack {kind}"), json!({"scenario": "exited leader", "tid": th.tid, "sp": format!("{sp:#x}"), "region": format!("{:#x}+{}", th.stack_start, th.stack_size), "message": m}));
                    }
                }
            }
            Outcome::Err(e) => {
                rep.count("dumps_no_verdict(err)", 1);
                rep.note(&format!("exited-leader target: no verdict (Err): {}", e.chars().take(160).collect::<String>()));
            }
            Outcome::Panic { message, location } => {
                rep.violation(&format!("C06 panic at {location}"), json!({"scenario": "exited leader", "panic": message}));
            }
        }
    }
}
