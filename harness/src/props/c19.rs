//! C19 — a writer can be reused: successive dumps are independent.

use crate::dest::Dest;
use crate::dump::{self, DumpOpts, Outcome};
use crate::image::{self, Image};
use crate::report::Report;
use crate::rng::{fnv, Rng};
use crate::scen::{self, OptKnobs, TargetCfg};
use serde_json::json;

/// Differences between two images of the same quiescent target that are NOT explained by the
/// timestamp, by RVAs, or by the running (non-sentinel) threads listed in `volatile_tids`.
#[derive(Default, Clone)]
pub struct DiffOpts {
    pub volatile_tids: Vec<u32>,
    pub ignore_names: bool,
    pub ignore_soft_errors: bool,
    pub ignore_cpu_fields: bool,
    pub ignore_dso: bool,
}

pub fn canonical_diff(a_img: &[u8], a: &Image, b_img: &[u8], b: &Image, volatile_tids: &[u32]) -> Vec<String> {
    canonical_diff_opts(a_img, a, b_img, b, &DiffOpts { volatile_tids: volatile_tids.to_vec(), ..Default::default() })
}

/// Two contexts of one thread that differ only because the thread was caught restarting an
/// interrupted system call in one of them: equal except rax and rip, rip apart by 2, the lower one
/// with a system-call number in rax (see the comment in `canonical_diff_opts`).
fn restart_equivalent(p: &[u8], q: &[u8]) -> bool {
    if p.len() != q.len() || p.len() < 256 {
        return false;
    }
    let only_rax_rip = (0..p.len()).all(|i| p[i] == q[i] || (120..128).contains(&i) || (248..256).contains(&i));
    let rip = |c: &[u8]| u64::from_le_bytes(c[248..256].try_into().unwrap());
    let rax = |c: &[u8]| u64::from_le_bytes(c[120..128].try_into().unwrap());
    let (lo, hi) = if rip(p) < rip(q) { (p, q) } else { (q, p) };
    only_rax_rip && rip(hi) - rip(lo) == 2 && rax(lo) < 1024
}

pub fn canonical_diff_opts(a_img: &[u8], a: &Image, b_img: &[u8], b: &Image, opts: &DiffOpts) -> Vec<String> {
    let volatile_tids = &opts.volatile_tids[..];
    let mut d = Vec::new();
    let blob = |img: &[u8], rva: u32, size: u32| -> u64 { img.get(rva as usize..(rva as usize + size as usize)).map(fnv).unwrap_or(0) };
    // directory: same stream types in the same order
    let ta: Vec<u32> = a.dir.iter().map(|e| e.stream_type).collect();
    let tb: Vec<u32> = b.dir.iter().map(|e| e.stream_type).collect();
    let same_types = ta.len() == tb.len() && ta.iter().zip(tb.iter()).all(|(x, y)| x == y || (opts.ignore_dso && (*x == image::ST_LINUX_DSO_DEBUG || *y == image::ST_LINUX_DSO_DEBUG) && (*x == 0 || *y == 0)));
    if !same_types {
        d.push(format!("stream types differ: {ta:x?} vs {tb:x?}"));
    }
    // threads
    let (tha, thb) = (a.threads.clone().unwrap_or_default(), b.threads.clone().unwrap_or_default());
    if tha.iter().map(|t| t.tid).collect::<Vec<_>>() != thb.iter().map(|t| t.tid).collect::<Vec<_>>() {
        d.push(format!("thread id lists differ: {:?} vs {:?}", tha.iter().map(|t| t.tid).collect::<Vec<_>>(), thb.iter().map(|t| t.tid).collect::<Vec<_>>()));
    } else {
        for (x, y) in tha.iter().zip(thb.iter()) {
            if volatile_tids.contains(&x.tid) {
                if (x.stack_size > 0) != (y.stack_size > 0) {
                    d.push(format!("thread {}: stack present in one image only", x.tid));
                }
                continue;
            }
            if (x.stack_start, x.stack_size) != (y.stack_start, y.stack_size) {
                d.push(format!("thread {}: stack {:#x}+{} vs {:#x}+{}", x.tid, x.stack_start, x.stack_size, y.stack_start, y.stack_size));
            } else if blob(a_img, x.stack_rva, x.stack_size) != blob(b_img, y.stack_rva, y.stack_size) {
                let sa = a_img.get(x.stack_rva as usize..(x.stack_rva + x.stack_size) as usize).unwrap_or(&[]);
                let sb = b_img.get(y.stack_rva as usize..(y.stack_rva + y.stack_size) as usize).unwrap_or(&[]);
                let first = (0..sa.len().min(sb.len())).find(|&i| sa[i] != sb[i]);
                let ndiff = (0..sa.len().min(sb.len())).filter(|&i| sa[i] != sb[i]).count();
                d.push(format!("thread {}: stack bytes differ (stack {:#x}+{}, {} bytes differ, first at address {:#x})", x.tid, x.stack_start, x.stack_size, ndiff, x.stack_start + first.unwrap_or(0) as u64));
            }
            // A thread blocked in a system call that was interrupted by the previous dump's stop and
            // continued restarts the call: the kernel steps rip back by 2 (onto `syscall`) and puts
            // the call number back into rax. Caught there by one of the two dumps, its context
            // differs from the other dump's in exactly rax and rip - the target was not quiescent
            // for this thread, which says nothing about the writer.
            let restarting = match (&x.ctx, &y.ctx) {
                (Some(p), Some(q)) if p.raw.len() == q.raw.len() && p.raw.len() >= 256 => {
                    let only_rax_rip = (0..p.raw.len()).all(|i| p.raw[i] == q.raw[i] || (120..128).contains(&i) || (248..256).contains(&i));
                    let (lo, hi) = if p.rip < q.rip { (p, q) } else { (q, p) };
                    let lo_rax = u64::from_le_bytes(lo.raw[120..128].try_into().unwrap());
                    only_rax_rip && hi.rip - lo.rip == 2 && lo_rax < 1024
                }
                _ => false,
            };
            if !restarting && x.ctx.as_ref().map(|c| &c.raw) != y.ctx.as_ref().map(|c| &c.raw) {
                let offs: Vec<usize> = match (&x.ctx, &y.ctx) {
                    (Some(p), Some(q)) => (0..p.raw.len().min(q.raw.len())).filter(|&i| p.raw[i] != q.raw[i]).take(12).collect(),
                    _ => Vec::new(),
                };
                d.push(format!("thread {}: contexts differ (byte offsets {:?})", x.tid, offs));
            }
        }
    }
    // memory list as a multiset (volatile stacks by address only)
    let vol_stacks: Vec<u64> = tha.iter().chain(thb.iter()).filter(|t| volatile_tids.contains(&t.tid)).map(|t| t.stack_start).collect();
    // the stack of a running thread may start on another page and have another size from one dump
    // to the next: those descriptors are left out here (their presence is compared above)
    let key = |img: &[u8], m: &image::MemDesc| -> (u64, u32, u64) { (m.start, m.size, blob(img, m.rva, m.size)) };
    let mut ma: Vec<(u64, u32, u64)> = a.memory.clone().unwrap_or_default().iter().filter(|m| !vol_stacks.contains(&m.start)).map(|m| key(a_img, m)).collect();
    let mut mb: Vec<(u64, u32, u64)> = b.memory.clone().unwrap_or_default().iter().filter(|m| !vol_stacks.contains(&m.start)).map(|m| key(b_img, m)).collect();
    ma.sort();
    mb.sort();
    if ma != mb {
        d.push(format!(
            "memory lists differ: {} vs {} descriptors ({:?} vs {:?})",
            ma.len(),
            mb.len(),
            ma.iter().map(|m| format!("{:#x}+{}", m.0, m.1)).take(12).collect::<Vec<_>>(),
            mb.iter().map(|m| format!("{:#x}+{}", m.0, m.1)).take(12).collect::<Vec<_>>()
        ));
    }
    // modules
    let mk = |im: &Image| -> Vec<(u64, u32, Option<String>, Vec<u8>)> { im.modules.clone().unwrap_or_default().iter().map(|m| (m.base, m.size, m.name.clone(), m.cv.clone())).collect() };
    if mk(a) != mk(b) {
        d.push("module lists differ".into());
    }
    // exception
    match (&a.exception, &b.exception) {
        (Some(x), Some(y)) => {
            if (x.thread_id, x.code, x.flags) != (y.thread_id, y.code, y.flags) {
                d.push(format!("exception records differ: {:?} vs {:?}", (x.thread_id, x.code, x.flags), (y.thread_id, y.code, y.flags)));
            }
            // (a blamed thread without crash context that restarts its system call: same exemption
            // as for the thread contexts)
            let restarting_blamed = match (&x.ctx, &y.ctx) {
                (Some(p), Some(q)) => restart_equivalent(&p.raw, &q.raw),
                _ => false,
            };
            let volatile = volatile_tids.contains(&x.thread_id) || restarting_blamed;
            if !volatile && x.address != y.address {
                d.push(format!("exception addresses differ: {:#x} vs {:#x}", x.address, y.address));
            }
            if (x.ctx_size == 0) != (y.ctx_size == 0) {
                d.push(format!("exception context present in one image only (sizes {} vs {})", x.ctx_size, y.ctx_size));
            } else if !volatile && x.ctx.as_ref().map(|c| &c.raw) != y.ctx.as_ref().map(|c| &c.raw) {
                d.push("exception contexts differ".into());
            }
            // the exception context must be the blamed thread's own context location (or null)
            for (im, x, tag) in [(a, x, "reused"), (b, y, "fresh")] {
                let th = im.threads.as_ref().and_then(|v| v.iter().find(|t| t.tid == x.thread_id));
                match th {
                    Some(t) if (t.ctx_rva, t.ctx_size) != (x.ctx_rva, x.ctx_size) => d.push(format!("{tag}: exception context location is not the blamed thread's")),
                    None if x.ctx_size != 0 || x.ctx_rva != 0 => d.push(format!("{tag}: exception context ({},{}) although the blamed thread is not listed", x.ctx_rva, x.ctx_size)),
                    _ => {}
                }
            }
        }
        (None, None) => {}
        _ => d.push("exception stream present in one image only".into()),
    }
    if a.meminfo != b.meminfo {
        d.push("memory info lists differ".into());
    }
    if !opts.ignore_names && a.names != b.names {
        d.push("thread name streams differ".into());
    }
    // system info
    match (&a.sysinfo, &b.sysinfo) {
        (Some(x), Some(y)) => {
            if (x.processor_architecture, x.platform_id, &x.csd_version) != (y.processor_architecture, y.platform_id, &y.csd_version) {
                d.push("system info (architecture / platform / OS version) differs".into());
            }
            if !opts.ignore_cpu_fields && (x.processor_level, x.processor_revision, x.number_of_processors, &x.cpu) != (y.processor_level, y.processor_revision, y.number_of_processors, &y.cpu) {
                d.push("system info CPU fields differ".into());
            }
        }
        (None, None) => {}
        _ => d.push("system info stream present in one image only".into()),
    }
    let hk = |im: &Image| -> Vec<(u64, Option<String>, u32)> { im.handles.clone().unwrap_or_default().iter().map(|h| (h.handle, h.object_name.clone(), h.attributes)).collect() };
    if hk(a) != hk(b) {
        d.push("handle streams differ".into());
    }
    if !opts.ignore_dso && a.dso.as_ref().map(|x| (&x.link_map, x.dynamic, x.brk)) != b.dso.as_ref().map(|x| (&x.link_map, x.dynamic, x.brk)) {
        d.push("linker debug streams differ".into());
    }
    for t in [image::ST_LINUX_CMD_LINE, image::ST_LINUX_ENVIRON, image::ST_LINUX_AUXV, image::ST_LINUX_MAPS, image::ST_MOZ_LINUX_LIMITS, image::ST_LINUX_LSB_RELEASE, image::ST_MOZ_SOFT_ERRORS] {
        if t == image::ST_MOZ_SOFT_ERRORS && opts.ignore_soft_errors {
            continue;
        }
        if a.raw.get(&t) != b.raw.get(&t) {
            d.push(format!("raw stream {t:#x} differs"));
        }
    }
    d
}

pub fn run(rep: &mut Report, thorough: bool) {
    crate::util::install_quiet_panic_hook();
    rep.rule = "histories of 2..5 dump requests on ONE writer under generated option sets, against the same quiescent target, with the blamed thread / principal address / crash context / target changed between requests through the public fields (only the changed fields are re-assigned), and with application memory configured on the writer that the target maps only after the first two (failing) requests, and with a crash context whose instruction pointer lies in a file mapping that is unreadable (file truncated) during the first two requests; after each request a fresh identically configured writer dumps the same target and the two images are compared in canonical form (modulo timestamp, RVAs and the running main thread); each reused image also goes through the strict decoder. distinct = hash(option set, history shape); non-trivial = >= 2 Ok dumps compared".into();
    let mut rng = Rng::new(rep.seed.wrapping_mul(191_919));
    let ntargets = if thorough { 240 } else { 6 };
    let per_target = if thorough { 18 } else { 9 };
    for _ in 0..ntargets {
        let cfg = TargetCfg { sentinels: rng.range(1, 5) as usize, max_spinners: 0, heartbeats: 0, sleepers: 0, exiters: 0, names: true, regions: 3, elf_files: 1, fds: 3, stack_pages_max: 3, null_sp_threads: 1, big_region_pages: 0 };
        // a region the target maps only when asked: application memory configured on the writer
        // that is unreadable for the first requests (they fail) and readable later
        let mut late: (u64, u64) = (0, 0);
        let mut sc = match scen::build_target_with(&mut rng, &cfg, |b, _| {
            let addr = b.alloc(2, 9);
            late = (addr, 2 * crate::tspec::PAGE);
            b.spec.late_regions.push(crate::spec::Region { addr, len: late.1, prot: 6, kind: crate::spec::RegionKind::Anon, fill: crate::spec::Fill::Pattern, pokes: Vec::new(), unlink_after: false });
        }) {
            Ok(s) => s,
            Err(e) => {
                rep.inconclusive(format!("target did not start: {e}"));
                continue;
            }
        };
        // a second target for the "target swapped" histories and a null-sp thread for "blamed thread not listed"
        // the second target has EXACTLY the same layout (same addresses, same file names in
        // another directory) but different ELF images behind the file mappings: anything a writer
        // remembers per address from the first target is wrong for this one
        let sc2 = same_layout_other_images(&mut rng, &sc).or_else(|| scen::build_target(&mut rng, &TargetCfg { sentinels: 2, ..cfg.clone() }).ok());
        let _ = &mut sc;
        let volatile = vec![sc.target.pid as u32];
        let mut late_mapped = false;
        // an executable file mapping whose backing file the harness can truncate and extend again:
        // while the file is empty the page is mapped but unreadable (as after a binary was replaced)
        let exec_file: Option<(String, u64)> = sc.b.spec.regions.iter().find_map(|r| match &r.kind {
            crate::spec::RegionKind::File { path, .. } if r.prot == 5 && path.ends_with("exec-with-noaccess-tail.bin") => Some((path.clone(), r.addr)),
            _ => None,
        });
        for h in 0..per_target {
            let bits = rng.below(128) as u32;
            let knobs = OptKnobs::from_bits(bits, &mut rng);
            let o1 = scen::random_opts(&mut rng, &sc, &knobs);
            // h = 0..5: the six basic shapes; 6: crash ip in a truncated file; 7: late application memory
            let shape = if h % 9 == 8 { 8 } else if h % 9 == 6 && exec_file.is_some() { 7 } else if h % 9 == 7 && !late_mapped { 6 } else { h % 9 % 6 }; // 6: configured application memory becomes readable only after the first (failing) requests; 5: every request is preceded by a failed one; 0: same options; 1: blamed thread changes; 2: principal address unset later; 3: crash context removed later; 4: target swapped
            let mut o1 = o1;
            if shape == 6 {
                o1.app_memory.push((late.0 + 8 * rng.below(64), 1 + rng.below(4096)));
            }
            if shape == 7 {
                // crash context whose instruction pointer lies in that mapping, on a listed thread
                let (_, addr) = exec_file.clone().unwrap();
                let si = rng.usize_below(sc.b.sentinels.iter().filter(|s| s.stack_len > 0).count().max(1));
                if let Some(sen) = sc.b.sentinels.iter().filter(|s| s.stack_len > 0).nth(si) {
                    let tid = sc.target.manifest.tids[sen.index];
                    let mut crng = rng.fork(77);
                    o1.blamed = tid;
                    o1.crash = Some(dump::CrashSpec { gregs: scen::crash_gregs(&mut crng, sen.regs.gpr[crate::spec::RSP], addr + 200), fpstate: crng.bytes(512), signo: 7, code: 2, addr: addr + 200, tid, noise_seed: 0 });
                }
            }
            let len = if shape == 6 || shape == 7 { 4 } else if shape == 8 { 3 } else { rng.range(2, 5) as usize };
            let _g = dump::DUMP_LOCK.lock().unwrap_or_else(|e| e.into_inner());
            let (mut w, _guard) = dump::configure(&o1);
            let mut compared = 0;
            let mut history = Vec::new();
            for k in 0..len {
                let mut ok = o1.clone();
                if k >= 1 {
                    match shape {
                        1 => {
                            // any sentinel, including the null-stack-pointer one (which is not listed)
                            let s = rng.pick(&sc.b.sentinels);
                            ok.blamed = sc.target.manifest.tids[s.index];
                            ok.crash = None;
                        }
                        2 => ok.principal = None,
                        3 => ok.crash = None,
                        4 => {
                            if let Some(s2) = &sc2 {
                                if k % 2 == 1 {
                                    ok = DumpOpts { pid: s2.target.pid, blamed: s2.target.pid, crash: None, app_memory: Vec::new(), principal: None, ..o1.clone() };
                                }
                            }
                        }
                        _ => {}
                    }
                    // bring the reused writer's public configuration in line with `ok` — only the
                    // fields this history shape changes: a caller who configured a writer once does
                    // not re-assign its options before every request
                    match shape {
                        1 => {
                            w.blamed_thread = ok.blamed;
                            w.crash_context = None;
                        }
                        2 => w.principal_mapping_address = None,
                        3 => w.crash_context = None,
                        4 => {
                            w.process_id = ok.pid;
                            w.blamed_thread = ok.blamed;
                            w.principal_mapping_address = ok.principal.map(|p| p as usize);
                            w.crash_context = ok.crash.as_ref().map(|c| dump::build_crash_context(c, ok.pid));
                            w.app_memory = ok.app_memory.iter().map(|(p, l)| minidump_writer::app_memory::AppMemory { ptr: *p as usize, length: *l as usize }).collect();
                        }
                        _ => {}
                    }
                }
                if shape == 7 {
                    if let Some((path, _)) = &exec_file {
                        if k == 0 {
                            let ok = std::fs::OpenOptions::new().write(true).open(path).and_then(|f| f.set_len(0)).is_ok();
                            history.push(format!("the file behind the crash instruction pointer is truncated to 0 bytes (ok={ok})"));
                        } else if k == 2 {
                            let ok = std::fs::OpenOptions::new().write(true).open(path).and_then(|f| f.set_len(2 * crate::tspec::PAGE)).is_ok();
                            history.push(format!("the file is extended again (ok={ok})"));
                            rep.count("crash_ip_mappings_made_readable_again", ok as u64);
                        }
                    }
                }
                if shape == 8 && k == 1 {
                    // a module of the target is replaced IN PLACE (same path, same address, same
                    // size) by another image - a plug-in reloaded, a binary upgraded under a running
                    // process: the pages are shared with the file, so the target's memory changes too
                    use std::os::unix::fs::FileExt;
                    for f in sc.files.iter().filter(|f| !f.deleted && f.elf) {
                        let mut spec = f.spec.clone();
                        if let Some(id) = spec.phdr_note.as_mut() {
                            *id = rng.bytes(id.len());
                        }
                        if let Some(id) = spec.section_note.as_mut() {
                            *id = rng.bytes(id.len());
                        }
                        let built = crate::elf::build(&spec);
                        if built.bytes.len() == f.image.len() {
                            if let Ok(file) = std::fs::OpenOptions::new().write(true).open(&f.path) {
                                if file.write_all_at(&built.bytes, f.pad).is_ok() {
                                    history.push(format!("module {} rewritten in place with another build id", f.path));
                                    rep.count("modules_replaced_in_place", 1);
                                }
                            }
                        }
                    }
                }
                if shape == 6 && k == 2 && !late_mapped {
                    late_mapped = sc.target.map_late();
                    history.push(format!("target maps the configured application region {:#x}+{} (ok={late_mapped})", late.0, late.1));
                    rep.count("late_regions_mapped", late_mapped as u64);
                }
                // some requests FAIL part-way (destination I/O error): what they recorded must not
                // leak into the next request either
                if shape == 5 || (k + 1 < len && rng.chance(1, 6)) {
                    let cur = if ok.pid == sc.target.pid { &sc.target } else { &sc2.as_ref().unwrap().target };
                    cur.settle();
                    let mut df = Dest::plain();
                    let at = rng.range(3, 70) as usize;
                    df.set_fault(at, if rng.chance(1, 2) { crate::dest::Fault::Error } else { crate::dest::Fault::PartialThenError });
                    let r = dump::dump_with(&mut w, &mut df);
                    history.push(format!("failed request (destination error at call {at}) -> {}", match &r { Outcome::Ok(_) => "Ok", Outcome::Err(_) => "Err", Outcome::Panic { .. } => "panic" }));
                    rep.count("failed_requests_in_histories", matches!(r, Outcome::Err(_)) as u64);
                    if let Outcome::Panic { message, location } = r {
                        rep.violation(&format!("C19 panic at {location}"), json!({"history": history, "panic": message}));
                        break;
                    }
                }
                history.push(format!("dump#{k} [{}]", ok.describe()));
                let cur = if ok.pid == sc.target.pid { &sc.target } else { &sc2.as_ref().unwrap().target };
                cur.settle();
                let mut d1 = Dest::plain();
                let reused = dump::dump_with(&mut w, &mut d1);
                cur.settle();
                // fresh writer, same configuration, same (quiescent) target, immediately after
                let (mut wf, _gf) = {
                    // failspots are off in this check: configure() does not need the global lock twice
                    let mut o = ok.clone();
                    o.failspots.clear();
                    dump::configure(&o)
                };
                let mut d2 = Dest::plain();
                let fresh = dump::dump_with(&mut wf, &mut d2);
                match (reused, fresh) {
                    (Outcome::Ok(a), Outcome::Ok(b)) => {
                        let (ia, ib) = (image::decode(&a), image::decode(&b));
                        let vol = if ok.pid == sc.target.pid { volatile.clone() } else { vec![ok.pid as u32] };
                        let diffs = canonical_diff(&a, &ia, &b, &ib, &vol);
                        compared += 1;
                        rep.count("image_pairs_compared", 1);
                        if !diffs.is_empty() {
                            let key = diffs[0].split(':').next().unwrap_or("").split(" differ").next().unwrap_or("").to_string();
                            rep.violation(&format!("C19 reused writer differs from fresh writer: {}", if key.starts_with("thread ") { "thread content" } else { &key }), json!({"history": history, "differences": diffs.iter().take(6).collect::<Vec<_>>()}));
                        }
                        if !ia.errors.is_empty() && ib.errors.is_empty() {
                            rep.violation(&format!("C19 reused writer produced a structurally unsound image ({})", ia.error_kinds().join(",")), json!({"history": history, "errors": ia.errors.iter().take(4).collect::<Vec<_>>()}));
                        }
                    }
                    (Outcome::Err(_), Outcome::Err(_)) => {
                        rep.count("both_err(no verdict)", 1);
                    }
                    (Outcome::Panic { message, location }, _) => {
                        rep.violation(&format!("C19 panic at {location}"), json!({"history": history, "panic": message}));
                        break;
                    }
                    (r, f) => {
                        let tag = |o: &Outcome| match o {
                            Outcome::Ok(_) => "Ok".to_string(),
                            Outcome::Err(e) => format!("Err({})", e.chars().take(100).collect::<String>()),
                            Outcome::Panic { location, .. } => format!("panic at {location}"),
                        };
                        rep.violation("C19 reused writer outcome differs from fresh writer", json!({"history": history, "reused": tag(&r), "fresh": tag(&f)}));
                    }
                }
            }
            drop(_g);
            rep.case(fnv(format!("{}/{shape}/{len}", o1.describe()).as_bytes()), compared >= 2);
            if rep.samples.len() < 4 {
                rep.sample(json!({"history": history}));
            }
        }
    }
    rep.require("image_pairs_compared", 20);
    rep.require("late_regions_mapped", 1);
    rep.require("crash_ip_mappings_made_readable_again", 1);
}


fn same_layout_other_images(rng: &mut Rng, sc: &scen::Scenario) -> Option<scen::Scenario> {
    use crate::spec::RegionKind;
    let mut b = crate::tspec::Builder::new();
    b.spec = sc.b.spec.clone();
    b.opts = sc.b.opts.clone();
    b.sentinels = sc.b.sentinels.clone();
    b.spec.dir = crate::target::new_dir("sc2");
    let dir = b.spec.dir.clone();
    let mut files = Vec::new();
    for f in &sc.files {
        let mut spec = f.spec.clone();
        if let Some(id) = spec.phdr_note.as_mut() {
            *id = rng.bytes(id.len());
        }
        if let Some(id) = spec.section_note.as_mut() {
            *id = rng.bytes(id.len());
        }
        if spec.soname.is_some() {
            spec.soname = Some(format!("libother{}.so.{}", rng.below(1000), rng.below(9)));
        }
        let built = crate::elf::build(&spec);
        let name = std::path::Path::new(&f.path).file_name()?.to_string_lossy().into_owned();
        let path = format!("{dir}/{name}");
        let mut content = vec![0x5au8; f.pad as usize];
        content.extend_from_slice(&built.bytes);
        std::fs::write(&path, &content).ok()?;
        for r in b.spec.regions.iter_mut() {
            if let RegionKind::File { path: p, .. } = &mut r.kind {
                if *p == f.path {
                    *p = path.clone();
                }
            }
        }
        files.push(scen::FileTruth { path, spec, image: built.bytes, ..f.clone() });
    }
    // fd files live in the old directory: point them at the new one
    for fd in b.spec.fds.iter_mut() {
        match fd {
            crate::spec::FdSpec::File { path } | crate::spec::FdSpec::DeletedFile { path } => *path = path.replace(&sc.b.spec.dir, &dir),
            crate::spec::FdSpec::Dir { path } => *path = dir.clone(),
            _ => {}
        }
    }
    let target = crate::target::Target::spawn(b.spec.clone(), &b.opts).ok()?;
    Some(scen::Scenario { b, target, pattern_regions: sc.pattern_regions.clone(), exec_regions: sc.exec_regions.clone(), files, holes: sc.holes.clone() })
}
