//! C02 — dumping is total: it always returns and never panics or hangs; it never opens a mapped
//! file that lives under /dev.
//!
//! Every live dump runs in a watchdogged WORKER subprocess (`vh worker`) under RLIMIT_CPU and
//! RLIMIT_AS so that an unbounded loop, an allocation bomb or an abort is observed from outside.

use crate::dump::{CrashSpec, DumpOpts};
use crate::elf::{self, ElfSpec};
use crate::report::Report;
use crate::rng::{fnv, Rng};
use crate::scen::{self, OptKnobs};
use crate::spec::*;
use crate::target::Target;
use crate::tspec::*;
use serde_json::{json, Value};
use std::os::unix::process::{CommandExt, ExitStatusExt};

pub const CPU_LIMIT_S: u64 = 20;
pub const WALL_LIMIT_S: u64 = 90;

#[derive(Debug, Clone)]
pub enum WorkerOutcome {
    Ok,
    Err(String),
    Panic { message: String, location: String },
    Abort(i32),
    CpuLimit,
    WallTimeout { cpu_ms: u64, wchan: String },
    Harness(String),
}

pub fn worker_main(opts_path: &str, out_path: &str) {
    crate::util::install_quiet_panic_hook();
    let o: DumpOpts = serde_json::from_slice(&std::fs::read(opts_path).expect("opts")).expect("opts json");
    if let Some((point, arg)) = o.kill_at.clone() {
        use minidump_writer::verif_hooks::{set_sync, Point};
        let pid = o.pid;
        let mut nth = 0u32;
        set_sync(Some(Box::new(move |p| {
            let hit = match (point.as_str(), p) {
                ("ThreadsEnumerated", Point::ThreadsEnumerated) => true,
                ("BeforeAttach", Point::BeforeAttach(_)) | ("Attached", Point::Attached(_)) | ("AfterAttach", Point::AfterAttach(_, _)) | ("BeforeDetach", Point::BeforeDetach(_)) => {
                    nth += 1;
                    nth == arg + 1
                }
                ("ThreadsSuspended", Point::ThreadsSuspended) => true,
                ("Flushed", Point::Flushed(i)) => i == arg,
                ("BeforeResume", Point::BeforeResume) => true,
                _ => false,
            };
            if hit {
                unsafe {
                    libc::kill(pid, libc::SIGKILL);
                }
                // give the kernel a moment to tear the threads down (not a verdict: just placement)
                std::thread::sleep(std::time::Duration::from_millis(2));
            }
        })));
    }
    if let Some(path) = &o.cpuinfo_override {
        // private mount namespace: the bind mount is invisible to everybody else and disappears
        // with this process
        unsafe {
            let root = std::ffi::CString::new("/").unwrap();
            let src = std::ffi::CString::new(path.as_bytes()).unwrap();
            let dst = std::ffi::CString::new("/proc/cpuinfo").unwrap();
            let ok = libc::unshare(libc::CLONE_NEWNS) == 0
                && libc::mount(std::ptr::null(), root.as_ptr(), std::ptr::null(), libc::MS_REC | libc::MS_PRIVATE, std::ptr::null()) == 0
                && libc::mount(src.as_ptr(), dst.as_ptr(), std::ptr::null(), libc::MS_BIND, std::ptr::null()) == 0;
            if !ok {
                let v = json!({"outcome": "harness", "error": format!("cannot override /proc/cpuinfo: {}", std::io::Error::last_os_error())});
                std::fs::write(out_path, serde_json::to_vec(&v).unwrap()).expect("write outcome");
                return;
            }
        }
    }
    let (out, _) = crate::dump::dump(&o);
    if let (crate::dump::Outcome::Ok(img), Some(p)) = (&out, &o.image_out) {
        let _ = std::fs::write(p, img);
    }
    let v = match out {
        crate::dump::Outcome::Ok(img) => json!({"outcome": "ok", "len": img.len()}),
        crate::dump::Outcome::Err(e) => json!({"outcome": "err", "error": e.chars().take(300).collect::<String>()}),
        crate::dump::Outcome::Panic { message, location } => json!({"outcome": "panic", "message": message, "location": location}),
    };
    std::fs::write(out_path, serde_json::to_vec(&v).unwrap()).expect("write outcome");
}

pub fn run_worker(o: &DumpOpts, release: bool) -> WorkerOutcome {
    run_worker_wall(o, release, WALL_LIMIT_S)
}

/// requests of this run that did not return (CPU limit / wall watchdog)
static NON_RETURNS: std::sync::atomic::AtomicU64 = std::sync::atomic::AtomicU64::new(0);

pub fn run_worker_wall(o: &DumpOpts, release: bool, wall_limit_s: u64) -> WorkerOutcome {
    // every request that does not return costs its full CPU limit: once four of them have been
    // recorded (as violations, by the callers) the remaining worker requests of the run are not
    // made - the verdict is settled, and a run that took hours would only end in the driver's watchdog
    if NON_RETURNS.load(std::sync::atomic::Ordering::SeqCst) >= 4 {
        return WorkerOutcome::Harness("not run: four earlier requests of this run did not return".into());
    }
    let r = run_worker_wall_inner(o, release, wall_limit_s);
    if matches!(r, WorkerOutcome::CpuLimit | WorkerOutcome::WallTimeout { .. }) {
        NON_RETURNS.fetch_add(1, std::sync::atomic::Ordering::SeqCst);
    }
    r
}

fn run_worker_wall_inner(o: &DumpOpts, release: bool, wall_limit_s: u64) -> WorkerOutcome {
    let dir = crate::target::new_dir("wk");
    let (op, rp) = (format!("{dir}/opts.json"), format!("{dir}/result.json"));
    std::fs::write(&op, serde_json::to_vec(o).unwrap()).unwrap();
    let exe = if release { "/verif/.build/target/release/vh".to_string() } else { std::env::current_exe().unwrap().to_string_lossy().into_owned() };
    let mut cmd = std::process::Command::new(exe);
    cmd.arg("worker").arg(&op).arg(&rp).stdin(std::process::Stdio::null()).stdout(std::process::Stdio::null()).stderr(std::process::Stdio::null());
    unsafe {
        cmd.pre_exec(|| {
            let cpu = libc::rlimit { rlim_cur: CPU_LIMIT_S, rlim_max: CPU_LIMIT_S + 2 };
            libc::setrlimit(libc::RLIMIT_CPU, &cpu);
            let asl = libc::rlimit { rlim_cur: 6 << 30, rlim_max: 6 << 30 };
            libc::setrlimit(libc::RLIMIT_AS, &asl);
            let core = libc::rlimit { rlim_cur: 0, rlim_max: 0 };
            libc::setrlimit(libc::RLIMIT_CORE, &core);
            Ok(())
        });
    }
    let mut child = match cmd.spawn() {
        Ok(c) => c,
        Err(e) => return WorkerOutcome::Harness(format!("spawn worker: {e}")),
    };
    let t0 = std::time::Instant::now();
    let status = loop {
        match child.try_wait() {
            Ok(Some(st)) => break Some(st),
            Ok(None) => {}
            Err(e) => return WorkerOutcome::Harness(format!("wait: {e}")),
        }
        if t0.elapsed().as_secs() > wall_limit_s {
            break None;
        }
        std::thread::sleep(std::time::Duration::from_millis(2));
    };
    let res = match status {
        None => {
            // blocked or looping slowly: sample where it is, then kill
            let pid = child.id();
            let stat = std::fs::read_to_string(format!("/proc/{pid}/stat")).unwrap_or_default();
            let fields: Vec<&str> = stat.rsplit(") ").next().unwrap_or("").split(' ').collect();
            let ticks: u64 = fields.get(11).and_then(|s| s.parse().ok()).unwrap_or(0) + fields.get(12).and_then(|s| s.parse().ok()).unwrap_or(0);
            let wchan = std::fs::read_to_string(format!("/proc/{pid}/wchan")).unwrap_or_default();
            let _ = child.kill();
            let _ = child.wait();
            WorkerOutcome::WallTimeout { cpu_ms: ticks * 10, wchan }
        }
        Some(st) => {
            if let Some(sig) = st.signal() {
                if sig == libc::SIGXCPU || sig == libc::SIGKILL {
                    WorkerOutcome::CpuLimit
                } else {
                    WorkerOutcome::Abort(sig)
                }
            } else {
                match std::fs::read(&rp).ok().and_then(|b| serde_json::from_slice::<Value>(&b).ok()) {
                    Some(v) => match v["outcome"].as_str() {
                        Some("ok") => WorkerOutcome::Ok,
                        Some("err") => WorkerOutcome::Err(v["error"].as_str().unwrap_or("").to_string()),
                        Some("harness") => WorkerOutcome::Harness(v["error"].as_str().unwrap_or("").to_string()),
                        Some("panic") => WorkerOutcome::Panic { message: v["message"].as_str().unwrap_or("").to_string(), location: v["location"].as_str().unwrap_or("").to_string() },
                        _ => WorkerOutcome::Harness("bad result".into()),
                    },
                    None => {
                        if st.code() == Some(101) {
                            WorkerOutcome::Panic { message: "worker exited 101 without a result".into(), location: "unknown".into() }
                        } else {
                            WorkerOutcome::Abort(-(st.code().unwrap_or(0)))
                        }
                    }
                }
            }
        }
    };
    let _ = std::fs::remove_dir_all(&dir);
    res
}

// ---------------------------------------------------------------------------------------------
// inotify monitor for "/dev is never opened"
// ---------------------------------------------------------------------------------------------

pub struct OpenWatch {
    fd: i32,
}
impl OpenWatch {
    pub fn new(paths: &[String]) -> Option<Self> {
        let fd = unsafe { libc::inotify_init1(libc::IN_NONBLOCK | libc::IN_CLOEXEC) };
        if fd < 0 {
            return None;
        }
        for p in paths {
            let c = std::ffi::CString::new(p.as_bytes()).ok()?;
            if unsafe { libc::inotify_add_watch(fd, c.as_ptr(), libc::IN_OPEN) } < 0 {
                return None;
            }
        }
        Some(OpenWatch { fd })
    }
    /// number of IN_OPEN events since the last call
    pub fn drain(&self) -> usize {
        let mut n = 0;
        let mut buf = [0u8; 4096];
        loop {
            let r = unsafe { libc::read(self.fd, buf.as_mut_ptr() as *mut _, buf.len()) };
            if r <= 0 {
                break;
            }
            let mut off = 0usize;
            while off + 16 <= r as usize {
                let len = u32::from_ne_bytes(buf[off + 12..off + 16].try_into().unwrap()) as usize;
                n += 1;
                off += 16 + len;
            }
        }
        n
    }
}
impl Drop for OpenWatch {
    fn drop(&mut self) {
        unsafe {
            libc::close(self.fd);
        }
    }
}

// ---------------------------------------------------------------------------------------------
// case generation
// ---------------------------------------------------------------------------------------------

struct Case {
    category: &'static str,
    what: String,
    opts: DumpOpts,
}

fn hostile_values(rng: &mut Rng, t: &Target, b: &Builder) -> Vec<u64> {
    let mut v = vec![0u64, 1, 7, 8, 4095, 4096, u64::MAX, u64::MAX - 7, u64::MAX - 4095, u64::MAX - (1 << 20), u64::MAX - (1 << 20) + 8, 0x7fff_ffff_f000, 0x7fff_ffff_ffff, 0x8000_0000_0000, 0xffff_ffff_ff60_0000, 0xffff_ffff_ff60_0800, 1 << 63, (1 << 63) - 8];
    for k in 1..40 {
        v.push(u64::MAX - rng.below(4096));
        let _ = k;
    }
    for l in t.maps().iter() {
        v.push(l.start);
        v.push(l.start.wrapping_sub(1));
        v.push(l.end - 1);
        v.push(l.end);
        v.push(l.start + 3);
    }
    for s in &b.sentinels {
        v.push(s.regs.gpr[RSP]);
    }
    v
}

/// hostile linker chain variants poked into one page
pub fn hostile_chain(rng: &mut Rng, base: u64, variant: u64) -> (Vec<(u64, Vec<u8>)>, u64, u64, String) {
    let phdr_addr = base + 0x40;
    let ph = |t: u32, off: u64, vaddr: u64, size: u64| -> Vec<u8> {
        let mut b = Vec::new();
        b.extend_from_slice(&t.to_le_bytes());
        b.extend_from_slice(&4u32.to_le_bytes());
        for x in [off, vaddr, vaddr, size, size, 8u64] {
            b.extend_from_slice(&x.to_le_bytes());
        }
        b
    };
    let mut pokes = Vec::new();
    let mut load_vaddr = 0u64;
    let mut dyn_vaddr = 0x200u64;
    let mut phnum = 3u64;
    let what;
    let rdebug = base + 0x300;
    let lm0 = base + 0x400;
    let mut dynb: Vec<(u64, u64)> = vec![(1, 1), (21, rdebug), (0, 0)];
    let mut r_map = lm0;
    // link map defaults: 2 entries
    let mut lms: Vec<(u64, u64, u64, u64)> = vec![(0x1000, base + 0x800, 0x2000, lm0 + 0x40), (0x3000, base + 0x840, 0x4000, 0)];
    let mut names: Vec<(u64, Vec<u8>)> = vec![(base + 0x800, b"/fake/a.so\0".to_vec()), (base + 0x840, b"/fake/b.so\0".to_vec())];
    match variant {
        0 => {
            what = "cyclic l_next (two-entry cycle)".to_string();
            lms[1].3 = lm0;
        }
        1 => {
            what = "self-loop l_next".to_string();
            lms[0].3 = lm0;
        }
        2 => {
            what = "unterminated dynamic section running into an unmapped page".to_string();
            dyn_vaddr = 0xfd0; // three entries fit, no DT_NULL before the page ends
            dynb = vec![(1, 1), (21, rdebug), (1, 2)];
        }
        3 => {
            what = "PT_LOAD p_vaddr larger than the base (subtraction underflows)".to_string();
            load_vaddr = u64::MAX - 0x1000;
        }
        4 => {
            what = "non-UTF-8 library name".to_string();
            names[0].1 = vec![0xff, 0xfe, 0x80, b'x', 0];
        }
        5 => {
            what = "library name not terminated within 256 bytes at the end of the mapping".to_string();
            lms[0].1 = base + 0x1000 - 16;
            names[0] = (base + 0x1000 - 16, vec![b'n'; 16]);
        }
        6 => {
            what = "r_debug address 0".to_string();
            dynb[1].1 = 0;
        }
        7 => {
            what = "r_debug in unmapped memory".to_string();
            dynb[1].1 = base + 0x10_0000;
        }
        8 => {
            what = "r_map pointing to unmapped memory".to_string();
            r_map = base - 0x8000;
        }
        9 => {
            what = "PT_DYNAMIC p_vaddr near u64::MAX (address addition overflows)".to_string();
            dyn_vaddr = u64::MAX - 0x100;
        }
        10 => {
            what = "l_name = usize::MAX".to_string();
            lms[0].1 = u64::MAX;
        }
        11 => {
            what = "huge program header count with readable headers".to_string();
            phnum = 73; // (0x1000 - 0x40) / 56 = 72 headers fit in the page
        }
        13 => {
            what = "first dynamic entry straddles the end of the mapping (8 of 16 bytes readable)".to_string();
            dyn_vaddr = 0xff8;
        }
        14 => {
            what = "third dynamic entry straddles the end of the mapping".to_string();
            dyn_vaddr = 0xfd8;
            dynb = vec![(1, 1), (21, rdebug), (1, 2)];
        }
        15 => {
            what = "r_debug straddles the end of the mapping (16 of 40 bytes readable)".to_string();
            dynb[1].1 = base + 0xff0;
        }
        16 => {
            what = "first link map straddles the end of the mapping (24 of 40 bytes readable)".to_string();
            r_map = base + 0xfe8;
        }
        17 => {
            what = "second link map straddles the end of the mapping (8 of 40 bytes readable)".to_string();
            lms[0].3 = base + 0xff8;
        }
        _ => {
            what = "long chain (200 link maps in a loop-free list)".to_string();
            // fits: not here; keep the default
        }
    }
    let mut phs = Vec::new();
    phs.extend(ph(6, 0x40, load_vaddr.wrapping_add(0x40), 168));
    phs.extend(ph(1, 0, load_vaddr, 0x1000));
    phs.extend(ph(2, 0x200, load_vaddr.wrapping_add(dyn_vaddr), 48));
    pokes.push((phdr_addr, phs));
    let load_bias = base.wrapping_sub(load_vaddr);
    let dyn_addr = load_bias.wrapping_add(load_vaddr.wrapping_add(dyn_vaddr));
    if dyn_addr >= base && dyn_addr < base + 0x1000 {
        let mut d = Vec::new();
        for (t, v) in &dynb {
            d.extend_from_slice(&t.to_le_bytes());
            d.extend_from_slice(&v.to_le_bytes());
        }
        // only what fits before the end of the page (the next page is unmapped)
        d.truncate((base + 0x1000 - dyn_addr) as usize);
        pokes.push((dyn_addr, d));
    }
    let mut rd = Vec::new();
    rd.extend_from_slice(&1i32.to_le_bytes());
    rd.extend_from_slice(&0u32.to_le_bytes());
    rd.extend_from_slice(&r_map.to_le_bytes());
    rd.extend_from_slice(&rng.next().to_le_bytes());
    rd.extend_from_slice(&0u64.to_le_bytes());
    rd.extend_from_slice(&rng.next().to_le_bytes());
    pokes.push((rdebug, rd));
    for (i, (a, n, l, nx)) in lms.iter().enumerate() {
        let mut lm = Vec::new();
        for x in [*a, *n, *l, *nx, 0u64] {
            lm.extend_from_slice(&x.to_le_bytes());
        }
        pokes.push((lm0 + 0x40 * i as u64, lm));
    }
    for (a, n) in names {
        if a >= base && a + n.len() as u64 <= base + 0x1000 {
            pokes.push((a, n));
        }
    }
    (pokes, phdr_addr, phnum, what)
}

struct Lane {
    sc: scen::Scenario,
    chain_variants: Vec<(u64, u64, String)>, // (phdr, phnum, what)
    dev_paths: Vec<String>,
    odd_files: Vec<String>,
}

fn build_lane(rng: &mut Rng, lane: u64, with_root_sysv: bool) -> Result<Lane, String> {
    let mut b = Builder::new();
    b.spec.dir = crate::target::new_dir("c02");
    let dir = b.spec.dir.clone();
    let mut pattern_regions = Vec::new();
    let mut exec_regions = Vec::new();
    let mut files = Vec::new();
    let mut holes = Vec::new();
    for prot in [6u8, 5, 4, 0, 7] {
        let before = b.cursor();
        let pages = rng.range(1, 4);
        let i = b.anon(pages, 2, prot, Fill::Pattern);
        holes.push(before);
        let r = &b.spec.regions[i];
        if prot & 4 != 0 {
            pattern_regions.push((r.addr, r.len));
        }
        if prot == 5 {
            exec_regions.push((r.addr, r.len));
        }
    }
    // hostile linker chains: one page per variant
    let mut chain_variants = Vec::new();
    for v in 0..18u64 {
        let i = b.anon(1, 2, 6, Fill::Zero);
        let base = b.spec.regions[i].addr;
        let (pokes, phdr, phnum, what) = hostile_chain(rng, base, v);
        b.spec.regions[i].pokes = pokes;
        chain_variants.push((phdr, phnum, what));
    }
    // mapped files with corrupted ELF headers (the process-memory reader meets them)
    for k in 0..6 {
        let mut spec = ElfSpec::random(rng);
        spec.bits64 = true;
        let built = elf::build(&spec);
        let mut img = built.bytes.clone();
        for _ in 0..rng.range(1, 3) {
            let f = rng.pick(&built.fields).clone();
            let vals = if rng.chance(1, 3) { elf::relational_values(&built.bytes, &built.fields, f.size) } else { elf::boundary_values(img.len(), f.size) };
            elf::set_field(&mut img, &f, *rng.pick(&vals));
        }
        let name = match k {
            0 => "lib.so.1.2.3\u{e9}4".to_string(),
            1 => "libbad.so.\u{4e16}.7".to_string(),
            2 => "lib with (deleted) inside.so.9".to_string(),
            3 => "libx.so.4294967296.1".to_string(),
            4 => "libnl\nname.so.1".to_string(),
            _ => format!("libcorrupt{k}.so.1.2.3rc\u{e9}5"),
        };
        let path = format!("{dir}/{name}");
        std::fs::write(&path, &img).map_err(|e| e.to_string())?;
        let total: u64 = built.loads.iter().map(|l| l.1 / PAGE).sum();
        let base = b.alloc(total, 4);
        let mut at = base;
        for (off, len, prot) in &built.loads {
            b.add_region(Region { addr: at, len: *len, prot: *prot, kind: RegionKind::File { path: path.clone(), offset: *off }, fill: Fill::Keep, pokes: Vec::new(), unlink_after: false });
            at += len;
        }
        files.push(scen::FileTruth { path, spec, base, size: at - base, deleted: false, elf: true, pad: 0, image: img });
    }
    // files under /dev/shm: an ELF and a non-ELF one
    let mut dev_paths = Vec::new();
    for k in 0..2 {
        let p = format!("/dev/shm/vh-c02-{}-{lane}-{k}", std::process::id());
        let content = if k == 0 { elf::build(&ElfSpec::random(rng)).bytes } else { vec![0x42u8; 3 * 4096] };
        let mut content = content;
        content.resize(3 * 4096, 0);
        std::fs::write(&p, &content).map_err(|e| e.to_string())?;
        let a = b.alloc(3, 3);
        b.add_region(Region { addr: a, len: 3 * PAGE, prot: if k == 0 { 5 } else { 4 }, kind: RegionKind::SharedFile { path: p.clone(), offset: 0 }, fill: Fill::Keep, pokes: Vec::new(), unlink_after: false });
        dev_paths.push(p);
    }
    // a file whose name looks like a SysV shared memory segment but is shorter (needs /)
    let mut odd_files = Vec::new();
    if with_root_sysv {
        let p = format!("/SYSV{:x}", std::process::id() % 0xfff);
        if std::fs::write(&p, vec![1u8; 4096]).is_ok() {
            let a = b.alloc(1, 3);
            b.add_region(Region { addr: a, len: PAGE, prot: 4, kind: RegionKind::File { path: p.clone(), offset: 0 }, fill: Fill::Keep, pokes: Vec::new(), unlink_after: false });
            odd_files.push(p);
        }
    }
    // thread names: hostile byte strings only in lane 7 (a name that is not UTF-8 makes the whole
    // dump return Err, which is allowed but would mask everything downstream in the other lanes)
    let hostile: Vec<Vec<u8>> = vec![vec![0xff; 15], Vec::new(), b"   ".to_vec(), b"new\nline".to_vec(), "\u{e9}\u{e9}\u{e9}\u{e9}\u{e9}\u{e9}\u{e9}\u{4e16}".as_bytes().to_vec()];
    let benign: Vec<Vec<u8>> = vec![Vec::new(), b"   ".to_vec(), b"new\nline".to_vec(), "thr\u{e9}\u{4e16}".as_bytes().to_vec(), b"a b".to_vec()];
    for k in 0..3 {
        let nm = if lane == 7 { hostile[(k + 2 * (lane as usize)) % hostile.len()].clone() } else { benign[(k + lane as usize) % benign.len()].clone() };
        b.sentinel(rng, Mode::Pause, &StackShape { pages: 2, sp_offset: 4096 + 8 * k as i64, ..Default::default() }, Some(nm), None);
    }
    // lanes 1 and 5: more than 20 threads, several of them sitting in the guard page / an unmapped
    // page below their stack (size-limit code paths for threads at list position >= 20)
    if lane == 1 || lane == 5 {
        for k in 0..22 {
            let below = if k % 3 == 0 { -((1 + (k as i64 % 4)) * 4096) + 64 } else { 4096 + 16 * k as i64 };
            b.sentinel(rng, Mode::Pause, &StackShape { pages: 3, sp_offset: below, guard_mapping_pages: if k % 6 == 0 { 4 } else { 0 }, ..Default::default() }, None, None);
        }
    }
    let target = Target::spawn(b.spec.clone(), &b.opts)?;
    Ok(Lane { sc: scen::Scenario { b, target, pattern_regions, exec_regions, files, holes }, chain_variants, dev_paths, odd_files })
}

fn gen_cases(rng: &mut Rng, lane: &Lane, n: usize) -> Vec<Case> {
    let sc = &lane.sc;
    let t = &sc.target;
    let hv = hostile_values(rng, t, &sc.b);
    let mut cases = Vec::new();
    // (d) direct auxv with hostile chains and extreme values
    for (phdr, phnum, what) in &lane.chain_variants {
        let mut o = DumpOpts::new(t.pid, t.pid);
        o.direct_auxv = Some([*phnum, *phdr, 0, 0]);
        cases.push(Case { category: "hostile-linker-chain", what: what.clone(), opts: o });
    }
    for phnum in [1u64, 100_000, u64::MAX / 56 + 1, u64::MAX, 1 << 32, 0x492_4924_9249_2493] {
        for phdr in [1u64, t.manifest.at_phdr, sc.holes[0], sc.pattern_regions[0].0 + sc.pattern_regions[0].1 - 20, u64::MAX, u64::MAX - 55] {
            let mut o = DumpOpts::new(t.pid, t.pid);
            o.direct_auxv = Some([phnum, phdr, *rng.pick(&hv), *rng.pick(&hv)]);
            cases.push(Case { category: "direct-auxv", what: format!("phnum={phnum:#x} phdr={phdr:#x}"), opts: o });
        }
    }
    // target killed at each hook point (the dump must still return)
    for (pt, arg) in [("ThreadsEnumerated", 0u32), ("BeforeAttach", 0), ("BeforeAttach", 2), ("Attached", 1), ("AfterAttach", 0), ("ThreadsSuspended", 0), ("Flushed", 0), ("Flushed", 1), ("Flushed", 5), ("Flushed", 12), ("Flushed", 17), ("BeforeResume", 0), ("BeforeDetach", 1)] {
        let mut o = DumpOpts::new(t.pid, t.pid);
        o.kill_at = Some((pt.to_string(), arg));
        cases.push(Case { category: "target-killed-mid-dump", what: format!("SIGKILL at {pt}({arg})"), opts: o });
    }
    // size limits around the estimate without a crash context (threads at position >= 20 get shortened)
    for lim in [0u64, 1, 65536, 300_000] {
        for sanitize in [false, true] {
            let mut o = DumpOpts::new(t.pid, t.pid);
            o.size_limit = Some(lim);
            o.sanitize = sanitize;
            cases.push(Case { category: "size-limit", what: format!("limit={lim} sanitize={sanitize}"), opts: o });
        }
    }
    // (a) hostile crash registers
    while cases.len() < n {
        let bits = rng.below(128) as u32 & !1;
        let knobs = OptKnobs::from_bits(bits, rng);
        let mut o = scen::random_opts(rng, sc, &knobs);
        let tid = if rng.chance(1, 2) { t.pid } else { t.manifest.tids[rng.usize_below(t.manifest.tids.len())] };
        o.blamed = tid;
        let rsp = *rng.pick(&hv);
        let rip = *rng.pick(&hv);
        let mut crng = rng.fork(77);
        o.crash = Some(CrashSpec { gregs: scen::crash_gregs(&mut crng, rsp, rip), fpstate: crng.bytes(512), signo: 11, code: 1, addr: *rng.pick(&hv), tid, noise_seed: rng.next() | 1 });
        if rng.chance(1, 3) {
            o.principal = Some(*rng.pick(&hv));
            o.skip_unreferenced = true;
        }
        if rng.chance(1, 4) {
            o.app_memory.push((*rng.pick(&hv), *rng.pick(&[1u64, 8, 4096, 1 << 20, 1 << 40, u64::MAX])));
        }
        cases.push(Case { category: "hostile-crash-registers", what: format!("rsp={rsp:#x} rip={rip:#x}"), opts: o });
    }
    cases
}

fn classify(out: &WorkerOutcome) -> Option<String> {
    match out {
        WorkerOutcome::Ok | WorkerOutcome::Err(_) => None,
        WorkerOutcome::Panic { location, message } => {
            // sub-classify the two arithmetic families by message so that signatures stay exact
            let kind = if message.contains("overflow") { "arithmetic overflow" } else if message.contains("out of range") || message.contains("out of bounds") { "index out of range" } else if message.contains("char boundary") { "str slice inside a character" } else { "other" };
            Some(format!("C02 dump panicked at {location} ({kind})"))
        }
        WorkerOutcome::Abort(sig) => Some(format!("C02 dump aborted the process (signal/exit {sig})")),
        WorkerOutcome::CpuLimit => Some("C02 dump loops without bound (CPU limit hit)".into()),
        WorkerOutcome::WallTimeout { .. } => Some("C02 dump did not return (wall-clock watchdog)".into()),
        WorkerOutcome::Harness(_) => None,
    }
}

pub fn run_live(rep: &mut Report, thorough: bool, release: bool) {
    let seed = rep.seed;
    let lanes = 9u64; // lane 8 only carries the short /SYSV-like file name and runs two cases
    let per_lane = if thorough { 640 } else { 84 };
    let results = crate::util::par_map(lanes, |li| {
        let mut out: Vec<(String, String, WorkerOutcome, usize, u64)> = Vec::new();
        let mut rng = Rng::new(seed.wrapping_mul(20_202_021).wrapping_add(li));
        let mut lane = match build_lane(&mut rng, li, li == 8) {
            Ok(l) => l,
            Err(e) => {
                out.push(("harness".into(), e.clone(), WorkerOutcome::Harness(e), 0, 0));
                return out;
            }
        };
        let watch = OpenWatch::new(&lane.dev_paths);
        if let Some(w) = &watch {
            w.drain();
        }
        let mut cases = gen_cases(&mut rng, &lane, per_lane);
        if li == 8 {
            cases.truncate(2);
        }
        for c in cases {
            if !lane.sc.target.alive() {
                match build_lane(&mut rng, li, false) {
                    Ok(l) => lane = l,
                    Err(_) => break,
                }
                // the harness and the new target opened the /dev/shm files while setting up
                if let Some(w) = &watch {
                    w.drain();
                }
            }
            let mut opts = c.opts.clone();
            if opts.pid != lane.sc.target.pid {
                // the lane was rebuilt after its target died: aim at the new target
                let old = opts.pid;
                opts.pid = lane.sc.target.pid;
                if opts.blamed == old {
                    opts.blamed = opts.pid;
                } else {
                    opts.blamed = lane.sc.target.manifest.tids[0];
                }
                if let Some(c) = opts.crash.as_mut() {
                    c.tid = opts.blamed;
                }
            }
            let r = run_worker(&opts, release);
            let opened = watch.as_ref().map(|w| w.drain()).unwrap_or(0);
            // a worker that was killed may leave the target stopped / traced: recover
            if matches!(r, WorkerOutcome::CpuLimit | WorkerOutcome::WallTimeout { .. } | WorkerOutcome::Abort(_)) {
                unsafe {
                    libc::kill(lane.sc.target.pid, libc::SIGCONT);
                }
            }
            out.push((c.category.to_string(), format!("{} [{}]", c.what, c.opts.describe()), r, opened, fnv(serde_json::to_string(&c.opts).unwrap().as_bytes())));
        }
        for p in lane.dev_paths.iter().chain(lane.odd_files.iter()) {
            let _ = std::fs::remove_file(p);
        }
        out
    });
    for lane in results {
        for (cat, what, r, opened, d) in lane {
            rep.case(d, true);
            rep.count(&format!("worker_runs[{cat}]"), 1);
            match &r {
                WorkerOutcome::Ok => rep.count("outcome_ok", 1),
                WorkerOutcome::Err(e) => {
                    rep.count("outcome_err", 1);
                    let key: String = e.chars().take(60).collect();
                    rep.count(&format!("err[{key}]"), 1);
                }
                WorkerOutcome::Harness(e) => rep.inconclusive(format!("worker harness error: {e}")),
                _ => {}
            }
            if let Some(sig) = classify(&r) {
                rep.violation(&sig, json!({"category": cat, "case": what, "outcome": format!("{r:?}"), "profile": if release { "release" } else { "debug" }}));
            }
            if opened > 0 {
                rep.violation("C02 a mapped file under /dev was opened during the dump", json!({"category": cat, "case": what, "inotify_open_events": opened}));
            }
            rep.count("dev_open_checks", 1);
            if rep.samples.len() < 6 && cat != "harness" {
                rep.sample(json!({"category": cat, "case": what, "outcome": format!("{r:?}").chars().take(120).collect::<String>()}));
            }
        }
    }
}

// ---------------------------------------------------------------------------------------------
// (f) pure entry points, in-process
// ---------------------------------------------------------------------------------------------

pub fn run_pure(rep: &mut Report, n: u64) {
    use minidump_writer::maps_reader::{MappingInfo, SystemMappingInfo};
    use procfs_core::process::MMPermissions;
    crate::util::install_quiet_panic_hook();
    let seed = rep.seed;
    let pieces: Vec<&str> = vec!["lib", "x", ".so", ".so.", ".", "1", "12", "4294967296", "99999999999", "rc", "\u{e9}", "\u{4e16}", "-", " ", "(deleted)", "2rc5", "a1b2", "", "so", "\u{1F600}", "0", ".so.1.2.3\u{e9}4", ".so.3.34.2rc5", "/"];
    let results = crate::util::par_map(n, |i| {
        let mut rng = Rng::new(seed.wrapping_mul(606_061).wrapping_add(i));
        let k = rng.range(1, 8);
        let mut name = String::from("/usr/lib/");
        for _ in 0..k {
            name.push_str(pieces[rng.usize_below(pieces.len())]);
        }
        let m = MappingInfo { start_address: 0x1000, size: 0x2000, system_mapping_info: SystemMappingInfo { start_address: 0x1000, end_address: 0x3000 }, offset: if rng.chance(1, 2) { 0 } else { 0x1000 }, permissions: if rng.chance(1, 2) { MMPermissions::READ | MMPermissions::EXECUTE } else { MMPermissions::READ }, name: Some(name.clone().into()) };
        let soname = match rng.below(3) {
            0 => None,
            1 => Some("libsoname.so.1".to_string()),
            _ => Some(format!("{}{}", pieces[rng.usize_below(pieces.len())], pieces[rng.usize_below(pieces.len())])),
        };
        let _w = crate::util::watch_call("effective path / version of a mapping", None);
        let r = std::panic::catch_unwind(|| m.get_mapping_effective_path_name_and_version(soname.clone()).map(|_| ()));
        let v = match r {
            Ok(_) => None,
            Err(p) => Some((crate::util::short_loc(&crate::util::last_panic_loc()), crate::util::panic_message(&p))),
        };
        (fnv(name.as_bytes()), name, v)
    });
    for (d, name, v) in results {
        rep.case(d, true);
        rep.count("pure_name_version_calls", 1);
        if let Some((loc, msg)) = v {
            let kind = if msg.contains("char boundary") { "str slice inside a character" } else if msg.contains("overflow") { "arithmetic overflow" } else { "other" };
            rep.violation(&format!("C02 pure entry point panicked at {loc} ({kind})"), json!({"entry": "get_mapping_effective_path_name_and_version", "name": name, "panic": msg}));
        }
    }
    // get_stack_info over generated layouts with extreme stack pointers
    let nthreads = crate::util::threads() as u64;
    let per = n / 4 / nthreads + 1;
    let results = crate::util::par_map(nthreads, |ti| {
        let mut out = Vec::new();
        let Ok(mut env) = crate::props::c12::DirectEnv::new() else { return out };
        let mut rng = Rng::new(seed.wrapping_mul(707_077).wrapping_add(ti));
        for _ in 0..per {
            let c = crate::props::c12::gen_case(&mut rng);
            env.dumper.mappings = c
                .maps
                .iter()
                .map(|m| MappingInfo { start_address: m.start as usize, size: (m.end - m.start) as usize, system_mapping_info: SystemMappingInfo { start_address: m.start as usize, end_address: m.end as usize }, offset: 0, permissions: if m.exec { MMPermissions::READ | MMPermissions::EXECUTE } else if rng.chance(1, 4) { MMPermissions::PRIVATE } else { MMPermissions::READ | MMPermissions::WRITE }, name: None })
                .collect();
            let sp: u64 = match rng.below(6) {
                0 => u64::MAX - rng.below(1 << 21),
                1 => rng.below(1 << 21),
                2 if !c.maps.is_empty() => {
                    let m = rng.pick(&c.maps);
                    *rng.pick(&[m.start, m.end, m.end - 1, m.start.wrapping_sub(1), m.start.wrapping_sub(1 << 20), m.start.wrapping_sub((1 << 20) + 4096)])
                }
                _ => rng.next(),
            };
            let _w = crate::util::watch_call("stack lookup", None);
            let r = std::panic::catch_unwind(std::panic::AssertUnwindSafe(|| env.dumper.get_stack_info(sp as usize).map(|_| ())));
            out.push((sp, r.err().map(|p| (crate::util::short_loc(&crate::util::last_panic_loc()), crate::util::panic_message(&p)))));
        }
        out
    });
    for lane in results {
        for (sp, v) in lane {
            rep.case(fnv(&sp.to_le_bytes()), true);
            rep.count("pure_get_stack_info_calls", 1);
            if let Some((loc, msg)) = v {
                let kind = if msg.contains("overflow") { "arithmetic overflow" } else { "other" };
                rep.violation(&format!("C02 pure entry point panicked at {loc} ({kind})"), json!({"entry": "get_stack_info", "stack_pointer": format!("{sp:#x}"), "panic": msg}));
            }
        }
    }
}

pub fn run(rep: &mut Report, thorough: bool, release: bool) {
    rep.rule = "live dumps in watchdogged worker subprocesses (RLIMIT_CPU 20 s, RLIMIT_AS 6 GiB, 90 s wall watchdog) of targets that map hostile linker chains (18 variants), corrupted ELF files under hostile names, /dev/shm files (inotify IN_OPEN monitor), a short /SYSV-like file name, hostile thread names; targets whose thread-group leader has exited (the stop poll can never succeed) under stop timeouts of 0 us .. 30 ms; direct auxv extremes; crash registers drawn from {0,1,7,MAX-k,top of user space,vsyscall,every mapping bound +-1}; random option sets. Plus pure entry points (path/version derivation over generated names, get_stack_info over generated layouts) in-process. Outcome classes: ok/err fine; panic, abort, CPU limit, wall timeout are violations. distinct = hash(option set); non-trivial = every case".into();
    run_live(rep, thorough, release);
    unstoppable_leader(rep, thorough, release);
    killed_while_stopping(rep, thorough, release);
    unterminated_section_dynamic(rep, thorough, release);
    if !release {
        run_memory_images(rep, thorough);
        run_pure(rep, if thorough { 400_000 } else { 40_000 });
        rep.require("pure_name_version_calls", 1000);
    }
    rep.require("dev_open_checks", 50);
}

// ---------------------------------------------------------------------------------------------
// ELF images in TARGET MEMORY: the harness rewrites a region of the target through
// /proc/<pid>/mem and runs the process-memory readers on every corrupted image
// ---------------------------------------------------------------------------------------------

pub fn run_memory_images(rep: &mut Report, thorough: bool) {
    use minidump_writer::module_reader::{BuildId, ProcessMemory, ProcessReader, ReadFromModule, SoName};
    use std::os::unix::fs::FileExt;
    crate::util::install_quiet_panic_hook();
    let mut rng = Rng::new(rep.seed.wrapping_mul(20_240_202));
    let mut b = Builder::new();
    let pages = 8u64;
    let ri = b.anon(pages, 4, 6, Fill::Zero);
    let base = b.spec.regions[ri].addr;
    let t = match Target::spawn(b.spec.clone(), &b.opts) {
        Ok(t) => t,
        Err(e) => {
            rep.inconclusive(format!("memory-image target did not start: {e}"));
            return;
        }
    };
    let mem = match std::fs::OpenOptions::new().read(true).write(true).open(format!("/proc/{}/mem", t.pid)) {
        Ok(f) => f,
        Err(e) => {
            rep.inconclusive(format!("cannot open /proc/<pid>/mem for writing: {e}"));
            return;
        }
    };
    let mut try_image = |rep: &mut Report, img: &[u8], what: String| {
        let mut padded = img.to_vec();
        padded.resize((pages * PAGE) as usize, 0);
        padded.truncate((pages * PAGE) as usize);
        if mem.write_all_at(&padded, base).is_err() {
            rep.inconclusive("write to target memory failed".into());
            return;
        }
        let _w = crate::util::watch_call("ELF identification of an image in target memory", Some(img));
        let r = std::panic::catch_unwind(|| {
            let _ = BuildId::read_from_module(ProcessMemory::Process(ProcessReader::new(t.pid, base as usize)));
            let _ = SoName::read_from_module(ProcessMemory::Process(ProcessReader::new(t.pid, base as usize)));
        });
        rep.case(fnv(what.as_bytes()), true);
        rep.count("target_memory_images_read", 1);
        if let Err(p) = r {
            let loc = crate::util::short_loc(&crate::util::last_panic_loc());
            let msg = crate::util::panic_message(&p);
            let kind = if msg.contains("overflow") { "arithmetic overflow" } else if msg.contains("assertion") { "assertion" } else if msg.contains("out of range") { "index out of range" } else { "other" };
            rep.violation(&format!("C02 process-memory ELF reader panicked at {loc} ({kind})"), json!({"image": what, "panic": msg}));
        }
    };
    for (b64, section_only) in [(true, false), (true, true), (false, false)] {
        let spec = ElfSpec { bits64: b64, phdr_note: if section_only { None } else { Some((1..=20).collect()) }, section_note: if section_only { Some((1..=20).collect()) } else { None }, soname: Some("libmem.so.1".into()), section_table: true, text: vec![0x90; 64], vaddr_bias: 0, data_pages: 1, empty_first_note: false, text_skew: 0, soname_last: false, dynamic_section_cuts_null: false, big_endian: false, strtab_own_segment: false };
        let built = elf::build(&spec);
        // in memory the section table of `build` lies beyond the loaded segments; here the whole file
        // image is placed in memory, so every table is reachable
        for f in &built.fields {
            let mut vals = elf::boundary_values(built.bytes.len(), f.size);
            vals.extend(elf::relational_values(&built.bytes, &built.fields, f.size));
            vals.sort();
            vals.dedup();
            if !thorough && vals.len() > 60 {
                // quick: all boundary values + a seeded sample of the relational ones
                let keep: Vec<u64> = elf::boundary_values(built.bytes.len(), f.size);
                let mut rest: Vec<u64> = vals.iter().copied().filter(|v| !keep.contains(v)).collect();
                rng.shuffle(&mut rest);
                rest.truncate(40);
                vals = keep;
                vals.extend(rest);
            }
            // dynamic-section values are where two fields are compared: always all values
            if f.name.starts_with("dyn") {
                vals = elf::boundary_values(built.bytes.len(), f.size);
                vals.extend(elf::relational_values(&built.bytes, &built.fields, f.size));
                vals.sort();
                vals.dedup();
            }
            for v in vals {
                let mut img = built.bytes.clone();
                elf::set_field(&mut img, f, v);
                try_image(rep, &img, format!("bits64={b64} section_only={section_only} {}={v:#x}", f.name));
            }
        }
    }
    rep.require("target_memory_images_read", 500);
}


// ---------------------------------------------------------------------------------------------
// (g) a target that can never be seen stopped, under extreme stop timeouts
// ---------------------------------------------------------------------------------------------

/// The thread-group leader has exited: /proc/<pid>/stat shows `Z` for ever, so the writer's stop
/// poll can only end through its timeout - whatever value the caller configured, including zero
/// and sub-millisecond ones. The dump must still return (Ok or Err) in bounded time.
fn unstoppable_leader(rep: &mut Report, thorough: bool, release: bool) {
    let mut rng = Rng::new(rep.seed.wrapping_mul(77_003));
    let timeouts_us: Vec<u64> = if thorough { vec![0, 1, 500, 999, 1000, 1001, 1999, 2000, 30_000, 100_000] } else { vec![0, 500, 999, 1000, 30_000] };
    for us in timeouts_us {
        let mut b = Builder::new();
        for _ in 0..2 {
            b.sentinel(&mut rng, Mode::Pause, &StackShape::default(), None, None);
        }
        b.spec.leader_exit = true;
        let t = match Target::spawn(b.spec.clone(), &b.opts) {
            Ok(t) => t,
            Err(e) => {
                rep.inconclusive(format!("exited-leader target did not start: {e}"));
                continue;
            }
        };
        let t0 = std::time::Instant::now();
        while t.thread_status(t.pid).map(|s| s.0) != Some('Z') && t0.elapsed().as_secs() < 20 {
            std::thread::sleep(std::time::Duration::from_millis(1));
        }
        for blamed in [t.manifest.tids[0], t.pid] {
            let mut o = DumpOpts::new(t.pid, blamed);
            o.stop_timeout_ms = None;
            o.stop_timeout_us = Some(us);
            let r = run_worker_wall(&o, release, 25);
            unsafe {
                libc::kill(t.pid, libc::SIGCONT);
            }
            rep.case(fnv(format!("unstoppable/{us}/{}", blamed == t.pid).as_bytes()), true);
            rep.count("worker_runs[unstoppable-leader]", 1);
            match &r {
                WorkerOutcome::Ok => rep.count("outcome_ok", 1),
                WorkerOutcome::Err(_) => rep.count("outcome_err", 1),
                WorkerOutcome::Harness(e) => rep.inconclusive(format!("worker harness error: {e}")),
                _ => {}
            }
            if let Some(sig) = classify(&r) {
                rep.violation(&sig, json!({"category": "unstoppable-leader", "case": format!("thread-group leader exited, stop timeout {us} us, blamed = {}", if blamed == t.pid { "the exited leader" } else { "a live thread" }), "outcome": format!("{r:?}"), "profile": if release { "release" } else { "debug" }}));
            }
        }
    }
    rep.require("worker_runs[unstoppable-leader]", 4);
}


// ---------------------------------------------------------------------------------------------
// (h) the target is killed and reaped while the writer waits for it to stop
// ---------------------------------------------------------------------------------------------

/// The thread-group leader is blocked uninterruptibly (parent of a vfork-style child), so the
/// writer's SIGSTOP cannot take effect for a while; in that window the target is SIGKILLed and
/// reaped (what an OOM killer or a supervisor's watchdog does to a crashing process). Its /proc
/// entries vanish under the writer's feet. The dump must still return - with an error - in bounded time.
fn killed_while_stopping(rep: &mut Report, thorough: bool, release: bool) {
    let mut rng = Rng::new(rep.seed.wrapping_mul(88_007));
    for k in 0..(if thorough { 12 } else { 3 }) {
        let mut b = Builder::new();
        b.sentinel(&mut rng, Mode::Pause, &StackShape::default(), None, None);
        b.spec.leader_vfork_ms = Some(400);
        let mut t = match Target::spawn(b.spec.clone(), &b.opts) {
            Ok(t) => t,
            Err(e) => {
                rep.inconclusive(format!("vfork-leader target did not start: {e}"));
                continue;
            }
        };
        let mut o = DumpOpts::new(t.pid, t.pid);
        o.stop_timeout_ms = Some(20_000);
        let pid = t.pid;
        let worker = std::thread::spawn(move || run_worker_wall(&o, release, 30));
        // wait until the writer's SIGSTOP is pending on the process, then kill and reap the target
        let t0 = std::time::Instant::now();
        let mut seen = false;
        while t0.elapsed().as_secs() < 15 {
            let st = std::fs::read_to_string(format!("/proc/{pid}/status")).unwrap_or_default();
            let pending = |key: &str| st.lines().find(|l| l.starts_with(key)).and_then(|l| u64::from_str_radix(l[key.len()..].trim(), 16).ok()).unwrap_or(0);
            if (pending("ShdPnd:") | pending("SigPnd:")) & (1 << (libc::SIGSTOP - 1)) != 0 {
                seen = true;
                break;
            }
            std::thread::sleep(std::time::Duration::from_micros(200));
        }
        if k % 2 == 1 {
            std::thread::sleep(std::time::Duration::from_millis(3));
        }
        t.kill(); // SIGKILL + reap: /proc/<pid> is gone afterwards
        let r = worker.join().unwrap_or(WorkerOutcome::Harness("worker thread panicked".into()));
        rep.case(fnv(format!("killed-while-stopping/{k}").as_bytes()), true);
        if seen {
            rep.count("worker_runs[killed-while-stopping]", 1);
        } else {
            rep.count("worker_runs[killed-while-stopping, stop not caught pending]", 1);
        }
        match &r {
            WorkerOutcome::Ok => rep.count("outcome_ok", 1),
            WorkerOutcome::Err(_) => rep.count("outcome_err", 1),
            WorkerOutcome::Harness(e) => rep.inconclusive(format!("worker harness error: {e}")),
            _ => {}
        }
        if let Some(sig) = classify(&r) {
            rep.violation(&sig, json!({"category": "killed-while-stopping", "case": format!("leader blocked in a vfork-style wait, SIGKILL + reap {} the writer's SIGSTOP was pending", if seen { "while" } else { "although it was not seen that" }), "outcome": format!("{r:?}"), "profile": if release { "release" } else { "debug" }}));
        }
    }
    rep.require("worker_runs[killed-while-stopping]", 1);
}


// ---------------------------------------------------------------------------------------------
// (i) a mapped library whose `.dynamic` section has no terminator inside it
// ---------------------------------------------------------------------------------------------

/// The module carries a build id (so it is a module), no SONAME in its program-header dynamic
/// segment (so the section table is consulted), and a `.dynamic` section whose size stops short of
/// the DT_NULL entry. Walking that section must end - with "no SONAME" - not go round for ever.
fn unterminated_section_dynamic(rep: &mut Report, thorough: bool, release: bool) {
    let mut rng = Rng::new(rep.seed.wrapping_mul(99_013));
    for k in 0..(if thorough { 8 } else { 2 }) {
        let mut b = Builder::new();
        b.spec.dir = crate::target::new_dir("c02dyn");
        let dir = b.spec.dir.clone();
        let mut files = Vec::new();
        for (j, b64) in [(0, true), (1, k % 2 == 0)] {
            let spec = ElfSpec { bits64: b64, phdr_note: Some((1..=20).collect()), section_note: None, soname: None, section_table: true, text: vec![0x90; 64], vaddr_bias: 0, data_pages: 1, empty_first_note: false, text_skew: 0, soname_last: false, dynamic_section_cuts_null: true, big_endian: false, strtab_own_segment: false };
            scen::add_elf_file(&mut b, &mut rng, &dir, &format!("libnoterm{j}.so"), spec, j == 1 && k % 2 == 1, &mut files);
        }
        b.sentinel(&mut rng, Mode::Pause, &StackShape::default(), None, None);
        let t = match Target::spawn(b.spec.clone(), &b.opts) {
            Ok(t) => t,
            Err(e) => {
                rep.inconclusive(format!("target did not start: {e}"));
                continue;
            }
        };
        let o = DumpOpts::new(t.pid, t.pid);
        let r = run_worker_wall(&o, release, 40);
        unsafe {
            libc::kill(t.pid, libc::SIGCONT);
        }
        rep.case(fnv(format!("noterm/{k}").as_bytes()), true);
        rep.count("worker_runs[unterminated-section-dynamic]", 1);
        match &r {
            WorkerOutcome::Ok => rep.count("outcome_ok", 1),
            WorkerOutcome::Err(_) => rep.count("outcome_err", 1),
            WorkerOutcome::Harness(e) => rep.inconclusive(format!("worker harness error: {e}")),
            _ => {}
        }
        if let Some(sig) = classify(&r) {
            rep.violation(&sig, json!({"category": "unterminated-section-dynamic", "case": "mapped library with a build id, no SONAME, and a .dynamic section that ends before its DT_NULL", "outcome": format!("{r:?}"), "profile": if release { "release" } else { "debug" }}));
        }
    }
    rep.require("worker_runs[unterminated-section-dynamic]", 2);
}
