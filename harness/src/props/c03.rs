//! C03 — the target is left running and undisturbed.

use crate::dest::{Dest, Fault, Mode as DestMode};
use crate::dump::{self, CrashSpec, DumpOpts, Outcome};
use crate::report::Report;
use crate::rng::{fnv, Rng};
use crate::scen;
use crate::spec::*;
use crate::target::Target;
use crate::tspec::*;
use minidump_writer::verif_hooks::{self, Point};
use serde_json::json;
use std::collections::BTreeMap;
use std::sync::atomic::{AtomicBool, AtomicU64, Ordering};
use std::sync::{Arc, Mutex};

/// standard signals below SIGSTOP (19): dequeued BEFORE the attach SIGSTOP -> re-injection path
pub const STD_LOW: [i32; 9] = [1, 2, 3, 10, 12, 13, 14, 15, 17];
/// standard signals above SIGSTOP
/// standard signals above SIGSTOP. The job-control stop signals (SIGTSTP 20, SIGTTIN 21, SIGTTOU 22)
/// are left out: the kernel itself discards pending stop signals whenever SIGCONT is generated,
/// whoever sends it, so their fate is not the writer's doing.
pub const STD_HIGH: [i32; 4] = [23, 24, 28, 29];
pub const RT: [i32; 4] = [34, 35, 36, 37];

#[repr(C)]
struct SigInfo {
    si_signo: i32,
    si_errno: i32,
    si_code: i32,
    _pad: i32,
    si_pid: i32,
    si_uid: u32,
    si_value: u64,
    _rest: [u8; 96],
}

pub struct Sender {
    pub pid: i32,
    /// (slot, tid)
    pub receivers: Vec<(usize, i32)>,
    pub sent: Mutex<Vec<(usize, i32, u64)>>,
    pub next_id: AtomicU64,
    pub send_errors: AtomicU64,
}

impl Sender {
    pub fn send(&self, slot: usize, signo: i32) -> bool {
        let Some(&(_, tid)) = self.receivers.iter().find(|(s, _)| *s == slot) else { return false };
        let id = self.next_id.fetch_add(1, Ordering::SeqCst);
        let mut si: SigInfo = unsafe { std::mem::zeroed() };
        si.si_signo = signo;
        si.si_code = -1; // SI_QUEUE
        si.si_pid = std::process::id() as i32;
        si.si_value = id;
        let r = unsafe { libc::syscall(libc::SYS_rt_tgsigqueueinfo, self.pid, tid, signo, &si as *const SigInfo) };
        if r == 0 {
            self.sent.lock().unwrap().push((slot, signo, id));
            true
        } else {
            self.send_errors.fetch_add(1, Ordering::SeqCst);
            false
        }
    }
}

#[derive(Clone, Debug)]
pub enum Where {
    None,
    BeforeAttach,
    Attached,
    AfterAttach,
    ThreadsSuspended,
    Flushed(u32),
    BeforeResume,
    BeforeDetach,
    AfterResume,
    ThreadsEnumerated,
    /// a concurrent thread fires continuously while the dump runs
    Stress,
    /// no signal for the target: the DUMPING thread itself is interrupted (handler without
    /// SA_RESTART) while it attaches to running threads
    TracerStorm,
}

#[derive(Clone, Debug)]
pub struct Plan {
    pub place: Where,
    pub signals: Vec<i32>,
    pub group_stop: bool,
    pub dest_fault: Option<(usize, Fault)>,
    pub hard_error: u8, // 0 none, 1 unmapped app memory (fails before the memory list), 2 blamed thread does not exist (fails in the memory-info stream)
    pub with_ctx: bool,
    pub sanitize: bool,
    pub limit: bool,
    /// stop timeout in ms (None: 10 s). 0 makes the stop poll give up although the stop takes effect
    pub stop_timeout_ms: Option<u64>,
}

/// Post-state monitor + signal conservation after a dump returned / unwound.
#[allow(clippy::too_many_arguments)]
fn judge_after(rep: &mut Report, t: &Target, sender: &Sender, plan: &Plan, outcome: &str, hook_events: &[String], hb_before: &BTreeMap<usize, u64>, sent_before: usize, soft: &serde_json::Value) {
    let case = json!({"plan": format!("{plan:?}"), "outcome": outcome, "hook_events": hook_events.iter().take(12).collect::<Vec<_>>(), "soft_errors_of_the_dump": soft});
    let mut tids: Vec<i32> = vec![t.pid];
    tids.extend(t.manifest.tids.iter().copied());
    // (i.a) immediately: nobody is traced any more
    for tid in &tids {
        if let Some((_, tracer, _, _)) = t.thread_status(*tid) {
            rep.count("threads_checked_untraced", 1);
            if tracer != 0 {
                rep.violation(&format!("C03 thread still ptrace-attached after the dump {}", if outcome.starts_with("ok") { "returned Ok" } else if outcome.starts_with("panic") { "unwound" } else { "returned Err" }), json!({"case": case, "tid": tid, "tracer_pid": tracer}));
            }
        }
    }
    // (i.b) every thread resumes: heartbeat threads advance, nobody stays in a stop state
    let t0 = std::time::Instant::now();
    let mut stuck: Vec<(i32, char)> = Vec::new();
    loop {
        stuck.clear();
        let mut all = true;
        for (slot, before) in hb_before {
            if t.ctl.slot(*slot, SLOT_HEARTBEAT) < before + 2 {
                all = false;
            }
        }
        for tid in &tids {
            if let Some((st, _, _, _)) = t.thread_status(*tid) {
                if st == 't' || st == 'T' {
                    all = false;
                    stuck.push((*tid, st));
                }
            }
        }
        if all {
            break;
        }
        // the writer sends SIGCONT before it returns: a thread still in a stop state after 5 s
        // (with nothing to wake it) is stuck; heartbeats alone get the longer watchdog
        if t0.elapsed().as_secs() > 20 || (!stuck.is_empty() && t0.elapsed().as_secs() > 5) {
            break;
        }
        std::thread::sleep(std::time::Duration::from_micros(300));
    }
    rep.count("post_state_checks", 1);
    if !stuck.is_empty() {
        rep.violation("C03 thread left stopped after the dump", json!({"case": case, "threads_in_stop_state": stuck}));
        // let the target go on so that later plans are not poisoned
        unsafe {
            libc::kill(t.pid, libc::SIGCONT);
        }
    } else {
        for (slot, before) in hb_before {
            if t.ctl.slot(*slot, SLOT_HEARTBEAT) < before + 2 {
                // not stopped, not traced, but no progress within the watchdog: inconclusive
                rep.inconclusive(format!("heartbeat of slot {slot} did not advance within 20 s although no thread is stopped ({plan:?})"));
            }
        }
    }
    // (ii) conservation: every sent signal is logged exactly once by the thread it was sent to
    let all_sent = sender.sent.lock().unwrap().clone();
    let sent: Vec<(usize, i32, u64)> = all_sent[sent_before..].to_vec();
    let t0 = std::time::Instant::now();
    loop {
        // logical condition: every signal of this plan shows up in its thread's log
        let done = sender.receivers.iter().all(|(slot, _)| {
            let log = t.ctl.siglog(*slot);
            sent.iter().filter(|s| s.0 == *slot).all(|s| log.iter().any(|e| e.2 == s.2 && e.0 as i32 == s.1))
        });
        if done || t0.elapsed().as_secs() > 20 {
            break;
        }
        std::thread::sleep(std::time::Duration::from_micros(300));
    }
    for (slot, tid) in &sender.receivers {
        let log = t.ctl.siglog(*slot);
        let mine: Vec<(i32, u64)> = sent.iter().filter(|s| s.0 == *slot).map(|s| (s.1, s.2)).collect();
        rep.count("signals_accounted", mine.len() as u64);
        for (signo, id) in &mine {
            let n = log.iter().filter(|e| e.0 as i32 == *signo && e.2 == *id && e.1 as i32 == -1).count();
            if n == 0 {
                let pend = t.thread_status(*tid).map(|s| (s.2, s.3)).unwrap_or((0, 0));
                let still_pending = (pend.0 | pend.1) & (1u64 << (*signo - 1)) != 0;
                let class = if STD_LOW.contains(signo) { "standard signal below SIGSTOP" } else if RT.contains(signo) { "realtime signal" } else { "standard signal above SIGSTOP" };
                rep.violation(
                    &format!("C03 signal {} ({class}, placed at {})", if still_pending { "still pending and never delivered" } else { "lost" }, place_name(&plan.place)),
                    json!({"case": case, "tid": tid, "signo": signo, "id": id, "sigpnd": format!("{:#x}", pend.0), "shdpnd": format!("{:#x}", pend.1)}),
                );
            } else if n > 1 {
                rep.violation("C03 signal delivered more than once", json!({"case": case, "tid": tid, "signo": signo, "id": id, "times": n}));
            }
        }
        // nothing this thread did not get sent (ids are unique per run)
        for e in &log {
            if e.1 as i32 == -1 && !all_sent.iter().any(|s| s.2 == e.2 && s.1 == e.0 as i32) {
                rep.violation("C03 thread logged a signal that was never sent", json!({"case": case, "tid": tid, "entry": format!("{e:?}")}));
            } else if e.1 as i32 == -1 && !all_sent.iter().any(|s| s.0 == *slot && s.2 == e.2) {
                rep.violation("C03 signal delivered to another thread", json!({"case": case, "tid": tid, "entry": format!("{e:?}")}));
            }
        }
    }
}

fn place_name(w: &Where) -> &'static str {
    match w {
        Where::None => "nowhere",
        Where::BeforeAttach => "before-attach",
        Where::Attached => "between-attach-and-wait",
        Where::AfterAttach => "after-attach",
        Where::ThreadsSuspended => "threads-suspended",
        Where::Flushed(_) => "after-a-flush",
        Where::BeforeResume => "before-resume",
        Where::BeforeDetach => "before-detach",
        Where::AfterResume => "after-resume",
        Where::ThreadsEnumerated => "threads-enumerated",
        Where::Stress => "concurrent-stress",
        Where::TracerStorm => "tracer-interrupted",
    }
}

fn build_target(rng: &mut Rng, handled: &[i32]) -> Result<(Builder, Target, usize, usize), String> {
    let mut b = Builder::new();
    let none = b.anon(1, 3, 0, Fill::Keep); // PROT_NONE mapping for the hard-error plan
    let _ = none;
    b.spec.handle_signals = handled.to_vec();
    for _ in 0..2 {
        b.sentinel(rng, Mode::Pause, &StackShape::default(), None, None);
    }
    let hb0 = b.spec.threads.len();
    for _ in 0..3 {
        b.thread(ThreadKind::Heartbeat, Some(b"heartbeat".to_vec()));
    }
    let t = Target::spawn(b.spec.clone(), &b.opts)?;
    Ok((b, t, hb0, 3))
}

pub fn run(rep: &mut Report, thorough: bool) {
    crate::util::install_quiet_panic_hook();
    rep.rule = "targets with 3 heartbeat threads (signal-logging handlers), 2 blocked sentinel threads and the main thread. Fault enumeration: the destination fails with an error or PANICS (unwinding) at EVERY call index of the fault-free run, under {no ctx, ctx} x {plain, sanitize, limit}; hard errors at later stages (unmapped application memory, crash instruction pointer in an unreadable mapping). Schedules: uniquely numbered signals (rt_tgsigqueueinfo with si_value; standard signals below/above SIGSTOP and realtime signals) placed at each hook point (before attach, between attach and wait, after attach, threads suspended, after flush i, before resume, before detach, after resume) with the group stop succeeding or failing, plus a concurrent sender; plus dumps during which the DUMPING thread itself receives a stream of signals (handler without SA_RESTART) while it attaches to running threads under CPU contention. Oracle: TracerPid == 0 for every thread right after return, no thread left in t/T state, heartbeats advance, multiset(sent to tid) == multiset(logged by tid). distinct = hash(plan); non-trivial = the dump ran with >= 1 signal placed or >= 1 fault injected".into();
    let mut rng = Rng::new(rep.seed.wrapping_mul(303_031));
    let mut handled: Vec<i32> = Vec::new();
    handled.extend_from_slice(&STD_LOW);
    handled.extend_from_slice(&STD_HIGH);
    handled.extend_from_slice(&RT);
    let (b, t, hb0, nhb) = match build_target(&mut rng, &handled) {
        Ok(x) => x,
        Err(e) => {
            rep.inconclusive(format!("target did not start: {e}"));
            return;
        }
    };
    let t = Arc::new(t);
    let main_slot = t.spec.threads.len();
    let mut receivers: Vec<(usize, i32)> = (hb0..hb0 + nhb).map(|i| (i, t.manifest.tids[i])).collect();
    receivers.push((main_slot, t.pid));
    let sender = Arc::new(Sender { pid: t.pid, receivers: receivers.clone(), sent: Mutex::new(Vec::new()), next_id: AtomicU64::new(1), send_errors: AtomicU64::new(0) });
    let none_addr = t.spec.regions[0].addr;

    // ---- plan list
    let mut plans: Vec<Plan> = Vec::new();
    let base = Plan { place: Where::None, signals: Vec::new(), group_stop: true, dest_fault: None, hard_error: 0, with_ctx: false, sanitize: false, limit: false, stop_timeout_ms: None };
    // fault-free run to learn N
    let n_calls = {
        let mut d = Dest::plain();
        let v = d.clone();
        let o = DumpOpts::new(t.pid, t.pid);
        let _g = dump::DUMP_LOCK.lock().unwrap_or_else(|e| e.into_inner());
        let _ = dump::dump_into(&o, &mut d);
        v.calls()
    };
    rep.count("destination_calls_in_fault_free_run", n_calls as u64);
    let configs: Vec<(bool, bool, bool)> = if thorough { vec![(false, false, false), (true, false, false), (false, true, false), (true, true, false), (false, false, true), (true, false, true)] } else { vec![(false, false, false), (true, true, true)] };
    for (ci, (ctx, san, lim)) in configs.iter().enumerate() {
        for k in 0..n_calls + 3 {
            for fault in [Fault::Error, Fault::Panic] {
                if !thorough && ((k + ci) % 2 == 1) && fault == Fault::Error {
                    continue; // quick: every index is still hit by the panic variant
                }
                plans.push(Plan { dest_fault: Some((k, fault)), with_ctx: *ctx, sanitize: *san, limit: *lim, ..base.clone() });
            }
        }
    }
    for he in [1u8, 2] {
        for gs in [true, false] {
            plans.push(Plan { hard_error: he, group_stop: gs, with_ctx: he == 2, ..base.clone() });
        }
    }
    // the stop poll gives up (timeout 0 / 1 ms) although SIGSTOP was sent and takes effect
    for st in [0u64, 0, 1, 0] {
        plans.push(Plan { stop_timeout_ms: Some(st), ..base.clone() });
        plans.push(Plan { stop_timeout_ms: Some(st), dest_fault: Some((7, Fault::Error)), ..base.clone() });
        plans.push(Plan { stop_timeout_ms: Some(st), place: Where::ThreadsSuspended, signals: vec![10, 34], ..base.clone() });
    }
    let places = vec![Where::BeforeAttach, Where::Attached, Where::AfterAttach, Where::ThreadsSuspended, Where::Flushed(1), Where::Flushed(9), Where::Flushed(17), Where::BeforeResume, Where::BeforeDetach, Where::AfterResume, Where::ThreadsEnumerated];
    let reps = if thorough { 6 } else { 1 };
    for _ in 0..reps {
        // the racy placements (target running, realtime signals around the attach) are repeated
        for _ in 0..(if thorough { 30 } else { 10 }) {
            for place in [Where::BeforeAttach, Where::ThreadsEnumerated] {
                let sigs: Vec<i32> = vec![*rng.pick(&RT), *rng.pick(&RT), *rng.pick(&RT)];
                plans.push(Plan { place, signals: sigs, group_stop: false, ..base.clone() });
            }
        }
        // the dumping thread is interrupted while it attaches to threads that keep running
        for k in 0..(if thorough { 40 } else { 8 }) {
            plans.push(Plan { place: Where::TracerStorm, group_stop: false, sanitize: k % 2 == 0, ..base.clone() });
        }
        for place in &places {
            for gs in [true, false] {
                for class in 0..3 {
                    let sigs: Vec<i32> = match class {
                        0 => vec![*rng.pick(&STD_LOW), *rng.pick(&STD_LOW)],
                        1 => vec![*rng.pick(&STD_HIGH)],
                        _ => vec![*rng.pick(&RT), *rng.pick(&RT), *rng.pick(&RT)],
                    };
                    plans.push(Plan { place: place.clone(), signals: sigs, group_stop: gs, ..base.clone() });
                }
            }
        }
        for gs in [true, false] {
            plans.push(Plan { place: Where::Stress, signals: RT.to_vec(), group_stop: gs, ..base.clone() });
        }
    }

    // ---- run the plans
    let debug = std::env::var("VH_DEBUG").is_ok();
    let max_plans: usize = std::env::var("VH_MAX_PLANS").ok().and_then(|s| s.parse().ok()).unwrap_or(usize::MAX);
    for (pi, plan) in plans.into_iter().enumerate() {
        if pi >= max_plans {
            break;
        }
        // the per-thread signal logs hold 2048 entries: a stress plan (up to ~300 signals, possibly
        // all to one thread) only starts while every log has room for it
        if matches!(plan.place, Where::Stress) && receivers.iter().any(|(s, _)| t.ctl.slot(*s, SLOT_SIGCOUNT) > 1500) {
            rep.count("stress_plans_skipped(signal log room)", 1);
            continue;
        }
        let t_plan = std::time::Instant::now();
        t.settle();
        // all earlier signals must be accounted before the next plan starts (handshake for the
        // standard signals: at most one outstanding per thread and signal number)
        let mut o = DumpOpts::new(t.pid, t.pid);
        o.sanitize = plan.sanitize;
        if plan.limit {
            o.size_limit = Some(0);
        }
        if !plan.group_stop {
            o.failspots.push("StopProcess".into());
        }
        if let Some(ms) = plan.stop_timeout_ms {
            o.stop_timeout_ms = Some(ms);
        }
        if plan.with_ctx || plan.hard_error == 2 {
            let s = &b.sentinels[0];
            let tid = t.manifest.tids[s.index];
            o.blamed = tid;
            let ip = s.stub_addr + 1;
            let mut crng = rng.fork(5);
            o.crash = Some(CrashSpec { gregs: scen::crash_gregs(&mut crng, s.regs.gpr[RSP], ip), fpstate: crng.bytes(512), signo: 11, code: 1, addr: 0, tid, noise_seed: 0 });
        }
        if plan.hard_error == 1 {
            o.app_memory.push((none_addr - 8 * PAGE, 64)); // unmapped
        }
        if plan.hard_error == 2 {
            o.blamed = t.pid + 200_000; // /proc/<blamed>/maps cannot be read: the mandatory memory-info stream fails
            o.crash = None;
        }
        let sent_before = sender.sent.lock().unwrap().len();
        let burn_stop = Arc::new(AtomicBool::new(false));
        let events: Arc<Mutex<Vec<String>>> = Arc::new(Mutex::new(Vec::new()));
        let placed = Arc::new(AtomicU64::new(0));
        let mut hb_before = BTreeMap::new();
        for (slot, _) in &receivers {
            hb_before.insert(*slot, t.ctl.slot(*slot, SLOT_HEARTBEAT));
        }
        let _g = dump::DUMP_LOCK.lock().unwrap_or_else(|e| e.into_inner());
        {
            let (ev, snd, plan2, placed2, recv) = (events.clone(), sender.clone(), plan.clone(), placed.clone(), receivers.clone());
            let fired = Arc::new(AtomicBool::new(false));
            verif_hooks::set_sync(Some(Box::new(move |p| {
                let mut fire = |target_tid: Option<i32>| {
                    // each receiver gets one signal of the plan (distinct signal numbers per thread)
                    for (k, (slot, tid)) in recv.iter().enumerate() {
                        if let Some(tt) = target_tid {
                            if tt != *tid {
                                continue;
                            }
                        }
                        for (j, s) in plan2.signals.iter().enumerate() {
                            // distinct (thread, signo) pairs only: skip duplicates of a standard signal
                            if plan2.signals[..j].contains(s) && *s < 34 {
                                continue;
                            }
                            if snd.send(*slot, *s) {
                                placed2.fetch_add(1, Ordering::SeqCst);
                            }
                        }
                        let _ = k;
                    }
                };
                match (&plan2.place, p) {
                    (Where::BeforeAttach, Point::BeforeAttach(tid)) => fire(Some(tid)),
                    (Where::Attached, Point::Attached(tid)) => fire(Some(tid)),
                    (Where::AfterAttach, Point::AfterAttach(tid, _)) => fire(Some(tid)),
                    (Where::BeforeDetach, Point::BeforeDetach(tid)) => fire(Some(tid)),
                    (Where::ThreadsSuspended, Point::ThreadsSuspended) | (Where::BeforeResume, Point::BeforeResume) | (Where::AfterResume, Point::AfterResume) | (Where::ThreadsEnumerated, Point::ThreadsEnumerated) => {
                        if !fired.swap(true, Ordering::SeqCst) {
                            fire(None)
                        }
                    }
                    (Where::Flushed(i), Point::Flushed(j)) if *i == j => {
                        if !fired.swap(true, Ordering::SeqCst) {
                            fire(None)
                        }
                    }
                    _ => {}
                }
                if let Point::Reinjected(tid, sig) = p {
                    ev.lock().unwrap().push(format!("reinjected {sig} into {tid}"));
                }
            })));
        }
        // CPU contention for the plans that place signals around the attach while the target keeps
        // running: the interesting interleavings (a signal dequeued by the tracee between the
        // tracer's attach and its SIGSTOP) only happen when the tracee is not scheduled at once
        let burners: Vec<std::thread::JoinHandle<()>> = if !plan.group_stop && matches!(plan.place, Where::BeforeAttach | Where::ThreadsEnumerated | Where::Attached | Where::Stress | Where::TracerStorm) {
            let n = crate::util::threads() + 4;
            (0..n)
                .map(|_| {
                    let stop = burn_stop.clone();
                    std::thread::spawn(move || {
                        while !stop.load(Ordering::Relaxed) {
                            std::hint::spin_loop();
                        }
                    })
                })
                .collect()
        } else {
            Vec::new()
        };
        // concurrent sender for the stress plan
        let stop = Arc::new(AtomicBool::new(false));
        let stress = if matches!(plan.place, Where::Stress) {
            let (snd, stop2, placed2, recv, seed) = (sender.clone(), stop.clone(), placed.clone(), receivers.clone(), rng.next());
            Some(std::thread::spawn(move || {
                let mut r = Rng::new(seed);
                while !stop2.load(Ordering::SeqCst) {
                    let (slot, _) = recv[r.usize_below(recv.len())];
                    if snd.send(slot, *r.pick(&RT)) {
                        placed2.fetch_add(1, Ordering::SeqCst);
                    }
                    let spin = r.below(200);
                    for _ in 0..spin * 50 {
                        std::hint::spin_loop();
                    }
                    if placed2.load(Ordering::SeqCst) > 300 {
                        break;
                    }
                }
            }))
        } else {
            None
        };
        let mut d = Dest::new(Vec::new(), 0, DestMode::Plain, 1);
        if let Some((at, f)) = plan.dest_fault {
            d.set_fault(at, f);
        }
        let view = d.clone();
        let storm = if matches!(plan.place, Where::TracerStorm) { Some(crate::util::Storm::start(40 + 60 * (pi as u32 % 4))) } else { None };
        let out = dump::dump_into(&o, &mut d);
        if let Some(st) = storm {
            let (sent, _) = st.stop();
            rep.count("tracer_storm_signals_sent_to_the_dumping_thread", sent);
            rep.count("dumps_under_tracer_storm", 1);
        }
        verif_hooks::set_sync(None);
        burn_stop.store(true, Ordering::SeqCst);
        for h in burners {
            let _ = h.join();
        }
        stop.store(true, Ordering::SeqCst);
        if let Some(h) = stress {
            let _ = h.join();
        }
        drop(_g);
        let outcome = match &out {
            Outcome::Ok(_) => "ok".to_string(),
            Outcome::Err(e) => format!("err: {}", e.chars().take(80).collect::<String>()),
            Outcome::Panic { message, location } => format!("panic at {location}: {}", message.chars().take(60).collect::<String>()),
        };
        // an injected destination panic must be the only kind of panic
        if let Outcome::Panic { message, location } = &out {
            if !message.contains("injected destination panic") {
                rep.violation(&format!("C03 panic at {location}"), json!({"plan": format!("{plan:?}"), "panic": message}));
            } else {
                rep.count("dumps_unwound_by_destination_panic", 1);
            }
        }
        if plan.dest_fault.is_some() && view.failed() {
            rep.count("destination_faults_hit", 1);
        }
        if plan.hard_error != 0 {
            rep.count(if matches!(out, Outcome::Err(_)) { "hard_errors_hit" } else { "hard_error_plans_that_did_not_fail" }, 1);
        }
        let evs = events.lock().unwrap().clone();
        rep.count("reinjections_observed", evs.iter().filter(|e| e.starts_with("reinjected")).count() as u64);
        rep.count(&format!("signals_placed[{}]", place_name(&plan.place)), placed.load(Ordering::SeqCst));
        let nontrivial = placed.load(Ordering::SeqCst) > 0 || plan.dest_fault.is_some() || plan.hard_error != 0;
        rep.case(fnv(format!("{plan:?}").as_bytes()), nontrivial);
        let soft = crate::image::decode(&view.data()).soft_errors().unwrap_or(serde_json::Value::Null);
        judge_after(rep, &t, &sender, &plan, &outcome, &evs, &hb_before, sent_before, &soft);
        if debug {
            eprintln!("plan {pi} {:?} fault={:?} he={} gs={} -> {} [{} ms] violations={}", plan.place, plan.dest_fault, plan.hard_error, plan.group_stop, outcome, t_plan.elapsed().as_millis(), rep.violations_total);
        }
        if rep.samples.len() < 6 && (placed.load(Ordering::SeqCst) > 0 || plan.hard_error != 0) {
            rep.sample(json!({"plan": format!("{plan:?}"), "outcome": outcome, "signals_placed": placed.load(Ordering::SeqCst), "hook_events": evs.iter().take(6).collect::<Vec<_>>()}));
        }
        // the verdict is already "violated" with plenty of witnesses: every further plan would
        // wait out its watchdog again
        if rep.violations_total >= 12 {
            rep.note("stopped early: 12 violations already witnessed");
            break;
        }
        // logs are bounded (2048 entries per thread): stop before they fill up
        // every signal of the finished plan has been accounted (or reported): start the logs afresh
        if receivers.iter().any(|(s, _)| t.ctl.slot(*s, SLOT_SIGCOUNT) > 1200) {
            for (s, _) in receivers.iter() {
                t.ctl.set_slot(*s, SLOT_SIGCOUNT, 0);
            }
            rep.count("signal_logs_reset", 1);
        }
    }
    rep.count("signal_send_errors", sender.send_errors.load(Ordering::SeqCst));
    exited_leader(rep, &mut rng, if thorough { 8 } else { 3 });
    storm_on_slow_stoppers(rep, &mut rng, if thorough { 40 } else { 6 });
    rep.require("post_state_checks", 20);
    rep.require("destination_faults_hit", 20);
    rep.require("signals_accounted", 20);
    rep.require("reinjections_observed", 1);
    rep.require("dumps_unwound_by_destination_panic", 5);
    rep.require("dumps_under_tracer_storm", 4);
}


/// A target whose thread-group leader has exited: /proc/<pid>/stat stays `Z`, so the stop poll
/// can never see `T` although the SIGSTOP it sent does stop the live threads.
fn exited_leader(rep: &mut Report, rng: &mut Rng, n: usize) {
    for k in 0..n {
        let mut b = Builder::new();
        b.sentinel(rng, Mode::Pause, &StackShape::default(), None, None);
        let hb0 = b.spec.threads.len();
        for _ in 0..2 {
            b.thread(ThreadKind::Heartbeat, None);
        }
        b.spec.leader_exit = true;
        let t = match Target::spawn(b.spec.clone(), &b.opts) {
            Ok(t) => t,
            Err(e) => {
                rep.inconclusive(format!("exited-leader target did not start: {e}"));
                continue;
            }
        };
        let t0 = std::time::Instant::now();
        while t.thread_status(t.pid).map(|s| s.0) != Some('Z') && t0.elapsed().as_secs() < 20 {
            std::thread::sleep(std::time::Duration::from_millis(1));
        }
        let worker = t.manifest.tids[hb0];
        let mut o = DumpOpts::new(t.pid, worker);
        o.stop_timeout_ms = Some(if k % 2 == 0 { 30 } else { 0 });
        let before: Vec<u64> = (hb0..hb0 + 2).map(|i| t.ctl.slot(i, SLOT_HEARTBEAT)).collect();
        let out = {
            let _g = dump::DUMP_LOCK.lock().unwrap_or_else(|e| e.into_inner());
            dump::dump(&o).0
        };
        let outcome = match &out {
            Outcome::Ok(_) => "ok".to_string(),
            Outcome::Err(e) => format!("err: {}", e.chars().take(80).collect::<String>()),
            Outcome::Panic { location, .. } => format!("panic at {location}"),
        };
        rep.case(fnv(format!("exited-leader/{k}").as_bytes()), true);
        rep.count("exited_leader_post_state_checks", 1);
        let case = json!({"scenario": "thread-group leader exited (stop poll cannot succeed)", "stop_timeout_ms": o.stop_timeout_ms, "outcome": outcome});
        for tid in &t.manifest.tids {
            if let Some((_, tracer, _, _)) = t.thread_status(*tid) {
                if tracer != 0 {
                    rep.violation("C03 thread still ptrace-attached after the dump returned Ok", json!({"case": case, "tid": tid}));
                }
            }
        }
        let t0 = std::time::Instant::now();
        let mut stuck: Vec<(i32, char)> = Vec::new();
        loop {
            stuck.clear();
            let mut all = (0..2).all(|j| t.ctl.slot(hb0 + j, SLOT_HEARTBEAT) >= before[j] + 2);
            for tid in &t.manifest.tids {
                if let Some((st, _, _, _)) = t.thread_status(*tid) {
                    if st == 't' || st == 'T' {
                        all = false;
                        stuck.push((*tid, st));
                    }
                }
            }
            if all || t0.elapsed().as_secs() > 20 {
                break;
            }
            std::thread::sleep(std::time::Duration::from_micros(300));
        }
        if !stuck.is_empty() {
            rep.violation("C03 thread left stopped after the dump", json!({"case": case, "threads_in_stop_state": stuck}));
        }
    }
}


/// Threads that cannot stop at once (blocked uninterruptibly as the parent of a vfork-style child
/// for 10-30 ms) make the dumping thread SLEEP in the wait that follows its attach; meanwhile that
/// thread receives a stream of signals handled without SA_RESTART, so the wait is interrupted for
/// certain. Whatever the writer does with the interruption, when the dump returns every thread is
/// untraced, none is stopped, and all of them make progress.
fn storm_on_slow_stoppers(rep: &mut Report, rng: &mut Rng, n: usize) {
    for k in 0..n {
        let mut b = Builder::new();
        b.sentinel(rng, Mode::Pause, &StackShape::default(), None, None);
        let first = b.spec.threads.len();
        b.thread(ThreadKind::VforkWaiter { ms: 10 + 7 * (k as u32 % 3) }, None);
        b.thread(ThreadKind::VforkWaiter { ms: 25 }, None);
        b.thread(ThreadKind::Heartbeat, None);
        let t = match Target::spawn(b.spec.clone(), &b.opts) {
            Ok(t) => t,
            Err(e) => {
                rep.inconclusive(format!("slow-stopper target did not start: {e}"));
                continue;
            }
        };
        let mut o = DumpOpts::new(t.pid, t.pid);
        if k % 3 == 2 {
            o.failspots.push("StopProcess".into());
        }
        let before: Vec<u64> = (first..first + 3).map(|i| t.ctl.slot(i, SLOT_HEARTBEAT)).collect();
        let (out, sent) = {
            let _g = dump::DUMP_LOCK.lock().unwrap_or_else(|e| e.into_inner());
            let st = crate::util::Storm::start(80 + 40 * (k as u32 % 3));
            let out = dump::dump(&o).0;
            (out, st.stop().0)
        };
        let outcome = match &out {
            Outcome::Ok(_) => "ok".to_string(),
            Outcome::Err(e) => format!("err: {}", e.chars().take(80).collect::<String>()),
            Outcome::Panic { location, .. } => format!("panic at {location}"),
        };
        rep.case(fnv(format!("slow-stoppers/{k}").as_bytes()), true);
        rep.count("dumps_of_slow_stoppers_under_tracer_storm", 1);
        rep.count("tracer_storm_signals_sent_to_the_dumping_thread", sent);
        rep.count("post_state_checks", 1);
        let soft = match &out {
            Outcome::Ok(img) => crate::image::decode(img).soft_errors().unwrap_or(serde_json::Value::Null),
            _ => serde_json::Value::Null,
        };
        let case = json!({"scenario": "threads blocked uninterruptibly (vfork-style) + signals to the dumping thread", "outcome": outcome, "signals_sent_to_dumper": sent, "soft_errors_of_the_dump": soft});
        let mut all_tids = t.manifest.tids.clone();
        all_tids.push(t.pid);
        for tid in &all_tids {
            if let Some((_, tracer, _, _)) = t.thread_status(*tid) {
                if tracer != 0 {
                    rep.violation("C03 thread still ptrace-attached after the dump returned", json!({"case": case, "tid": tid}));
                }
            }
        }
        let t0 = std::time::Instant::now();
        let mut stuck: Vec<(i32, char)> = Vec::new();
        loop {
            stuck.clear();
            let mut all = (0..3).all(|j| t.ctl.slot(first + j, SLOT_HEARTBEAT) >= before[j] + 2);
            for tid in &all_tids {
                if let Some((st, _, _, _)) = t.thread_status(*tid) {
                    if st == 't' || st == 'T' {
                        all = false;
                        stuck.push((*tid, st));
                    }
                }
            }
            if all || t0.elapsed().as_secs() > 20 {
                break;
            }
            std::thread::sleep(std::time::Duration::from_micros(300));
        }
        if !stuck.is_empty() {
            rep.violation("C03 thread left stopped after the dump", json!({"case": case, "threads_in_stop_state": stuck}));
        } else if (0..3).any(|j| t.ctl.slot(first + j, SLOT_HEARTBEAT) < before[j] + 2) {
            rep.inconclusive(format!("a thread made no progress within 20 s although none is stopped ({case})"));
        }
    }
    rep.require("dumps_of_slow_stoppers_under_tracer_storm", 4);
}
