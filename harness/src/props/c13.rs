//! C13 — mapping aggregation preserves the address-space picture.
//!
//! The generator knows the lines; the checker reconstructs the partition of lines induced by the
//! output of the real `MappingInfo::aggregate` and tests every merge step against the weakest
//! reading of the statement.

use crate::report::Report;
use crate::rng::{fnv, Rng};
use minidump_writer::maps_reader::MappingInfo;
use procfs_core::process::MemoryMaps;
use procfs_core::FromRead;
use serde_json::json;
use std::os::unix::ffi::OsStrExt;

#[derive(Clone, Debug, PartialEq)]
pub struct Line {
    pub start: u64,
    pub end: u64,
    pub perms: &'static str,
    pub offset: u64,
    pub name: Option<String>,
}

impl Line {
    pub fn text(&self) -> String {
        let head = format!(
            "{:08x}-{:08x} {} {:08x} {} {}",
            self.start,
            self.end,
            self.perms,
            self.offset,
            if self.name.as_deref().map(|n| n.starts_with('/')).unwrap_or(false) { "fe:00" } else { "00:00" },
            if self.name.as_deref().map(|n| n.starts_with('/')).unwrap_or(false) { 319960 } else { 0 },
        );
        match &self.name {
            Some(n) => format!("{head:<72} {n}\n"),
            None => format!("{head} \n"),
        }
    }
    fn inaccessible_private(&self) -> bool {
        self.perms == "---p"
    }
    fn executable(&self) -> bool {
        self.perms.as_bytes()[2] == b'x'
    }
    /// name as the derived list must carry it (" (deleted)" stripped)
    fn clean_name(&self) -> Option<String> {
        self.name.as_ref().map(|n| n.strip_suffix(" (deleted)").unwrap_or(n).to_string())
    }
    fn is_path(&self) -> bool {
        self.name.as_deref().map(|n| n.contains('/')).unwrap_or(false)
    }
}

#[derive(Clone, Copy, Debug)]
pub struct Kind {
    pub name: Option<&'static str>,
    pub perms: &'static str,
    /// 0 = offset 0, 1 = some non-zero offset, 2 = offset equal to the previous line's end address
    pub off: u8,
}

pub const ALPHABET: &[Kind] = &[
    Kind { name: Some("/lib/libA.so"), perms: "r-xp", off: 0 },
    Kind { name: Some("/lib/libA.so"), perms: "r--p", off: 0 },
    Kind { name: Some("/lib/libA.so"), perms: "rw-p", off: 1 },
    Kind { name: Some("/lib/libB.so.1"), perms: "r-xp", off: 0 },
    Kind { name: Some("/lib/libB.so.1"), perms: "r--p", off: 1 },
    Kind { name: None, perms: "---p", off: 0 },
    Kind { name: None, perms: "rw-p", off: 0 },
    Kind { name: Some("[heap]"), perms: "rw-p", off: 0 },
    Kind { name: Some("[vdso]"), perms: "r-xp", off: 0 },
    Kind { name: Some("/lib/libA.so (deleted)"), perms: "r-xp", off: 0 },
    Kind { name: Some("/lib/libA.so"), perms: "---p", off: 0 },
    Kind { name: None, perms: "---s", off: 0 },
    Kind { name: None, perms: "---p", off: 2 },
    Kind { name: None, perms: "---p", off: 1 },
    Kind { name: Some("/opt/with space/lib C.so"), perms: "r-xp", off: 1 },
    Kind { name: None, perms: "r-xp", off: 0 },
    // names without a slash that are not bracketed pseudo-names either
    Kind { name: Some("anon_inode:[io_uring]"), perms: "rw-s", off: 0 },
    Kind { name: Some("[anon:scudo:primary]"), perms: "rw-p", off: 0 },
    // an unlinked file whose own name already ends in " (deleted)": only ONE suffix is the kernel's
    Kind { name: Some("/lib/libA.so (deleted) (deleted)"), perms: "r--p", off: 1 },
];

pub fn build_lines(kinds: &[(usize, bool, u64)], base: u64) -> Vec<Line> {
    // (kind index, contiguous with previous, pages)
    let mut out = Vec::new();
    let mut at = base;
    for (i, (k, contiguous, pages)) in kinds.iter().enumerate() {
        let kd = ALPHABET[*k];
        if i > 0 && !contiguous {
            at += 0x3000;
        }
        let start = at;
        let end = at + pages * 0x1000;
        let offset = match kd.off {
            0 => 0,
            1 => 0x2000 * (i as u64 + 1),
            _ => at, // == previous end when contiguous
        };
        out.push(Line { start, end, perms: kd.perms, offset, name: kd.name.map(|s| s.to_string()) });
        at = end;
    }
    out
}

/// Checks one (lines, gate) case against the real aggregate. Ok(number of merged groups with >1 line)
pub fn check_case(lines: &[Line], gate: Option<u64>) -> Result<(usize, usize), String> {
    let text: String = lines.iter().map(|l| l.text()).collect();
    let maps = MemoryMaps::from_read(text.as_bytes()).map_err(|e| format!("harness: generated text does not parse: {e:?}"))?;
    if maps.0.len() != lines.len() {
        return Err(format!("harness: parsed {} lines of {}", maps.0.len(), lines.len()));
    }
    let out = MappingInfo::aggregate(maps, gate).map_err(|e| format!("aggregate returned an error on a well-formed map: {e}"))?;
    // 1. ascending, no overlap
    for w in out.windows(2) {
        let a_end = w[0].start_address as u64 + w[0].size as u64;
        if (w[0].start_address as u64) >= (w[1].start_address as u64) || a_end > w[1].start_address as u64 {
            return Err(format!(
                "derived mappings out of order or overlapping: [{:x},{:x}) then [{:x},{:x})",
                w[0].start_address, a_end, w[1].start_address, w[1].start_address + w[1].size
            ));
        }
    }
    // 2. partition: every line inside exactly one output
    let mut groups: Vec<Vec<usize>> = vec![Vec::new(); out.len()];
    for (li, l) in lines.iter().enumerate() {
        let holders: Vec<usize> = out
            .iter()
            .enumerate()
            .filter(|(_, m)| m.start_address as u64 <= l.start && l.end <= (m.start_address + m.size) as u64)
            .map(|(i, _)| i)
            .collect();
        if holders.len() != 1 {
            return Err(format!("line {li} [{:x},{:x}) is contained in {} derived mappings", l.start, l.end, holders.len()));
        }
        groups[holders[0]].push(li);
    }
    let mut merged_groups = 0;
    let mut merge_steps = 0;
    for (gi, g) in groups.iter().enumerate() {
        let m = &out[gi];
        if g.is_empty() {
            return Err(format!("derived mapping [{:x},+{:x}) contains no input line", m.start_address, m.size));
        }
        // consecutive lines, hull exact, contiguous inside
        for w in g.windows(2) {
            if w[1] != w[0] + 1 {
                return Err(format!("derived mapping {gi} merges non-consecutive lines {} and {}", w[0], w[1]));
            }
            if lines[w[0]].end != lines[w[1]].start {
                return Err(format!("derived mapping {gi} merges lines {} and {} across a gap", w[0], w[1]));
            }
        }
        let first = &lines[g[0]];
        let last = &lines[*g.last().unwrap()];
        if m.start_address as u64 != first.start || (m.start_address + m.size) as u64 != last.end {
            return Err(format!(
                "derived mapping {gi} extent [{:x},{:x}) is not the hull [{:x},{:x}) of its lines",
                m.start_address,
                m.start_address + m.size,
                first.start,
                last.end
            ));
        }
        // 3. the name the group carries
        let renamed = gate == Some(first.start) && !first.is_path();
        let gname = if renamed { Some("linux-gate.so".to_string()) } else { first.clean_name() };
        let got = m.name.as_ref().map(|n| String::from_utf8_lossy(n.as_bytes()).into_owned());
        if gate == Some(first.start) && !first.is_path() && got.as_deref() != Some("linux-gate.so") {
            return Err(format!("mapping starting at the vDSO address {:x} is named {:?}, not linux-gate.so", first.start, got));
        }
        if got != gname {
            return Err(format!("derived mapping {gi} carries name {got:?} but its first line is named {gname:?}"));
        }
        // 4. every merge step must be justified
        if g.len() > 1 {
            merged_groups += 1;
        }
        let gpath = gname.as_deref().map(|n| n.contains('/')).unwrap_or(false);
        let mut exec_so_far = first.executable();
        for (pos, &li) in g.iter().enumerate().skip(1) {
            merge_steps += 1;
            let l = &lines[li];
            let lname = if gate == Some(l.start) && !l.is_path() { Some("linux-gate.so".to_string()) } else { l.clean_name() };
            let same_name = lname.is_some() && lname == gname;
            let reserved_after_exec = l.inaccessible_private() && gpath && exec_so_far;
            let between_parts = l.inaccessible_private()
                && l.name.is_none()
                && l.offset == 0
                && gpath
                && g.get(pos + 1).map(|&n| {
                    let nl = &lines[n];
                    nl.clean_name() == gname
                }) == Some(true);
            if !(same_name || reserved_after_exec || between_parts) {
                return Err(format!(
                    "line {li} ({} {:?} off={:x}) was merged into mapping named {gname:?} without justification (same name / reserved gap after executable file mapping / gap between two parts of the same file)",
                    l.perms, l.name, l.offset
                ));
            }
            if same_name {
                exec_so_far |= l.executable();
            }
        }
    }
    Ok((merged_groups, merge_steps))
}

fn describe(lines: &[Line], gate: Option<u64>) -> serde_json::Value {
    json!({"gate": gate.map(|g| format!("{g:x}")), "maps": lines.iter().map(|l| l.text().trim_end().to_string()).collect::<Vec<_>>()})
}

fn sig_of(msg: &str) -> String {
    let key = if msg.contains("out of order") {
        "unsorted-or-overlapping"
    } else if msg.contains("is contained in") {
        "line-not-in-exactly-one"
    } else if msg.contains("across a gap") {
        "merge-across-gap"
    } else if msg.contains("is not the hull") {
        "extent-not-hull"
    } else if msg.contains("without justification") {
        "unjustified-merge"
    } else if msg.contains("vDSO address") {
        "vdso-not-renamed"
    } else if msg.contains("carries name") {
        "name-not-preserved"
    } else if msg.contains("returned an error") {
        "error-on-wellformed-map"
    } else if msg.contains("non-consecutive") {
        "merge-non-consecutive"
    } else {
        "other"
    };
    format!("C13 aggregate {key}")
}

fn eval(rep_items: &mut Vec<(u64, bool, Option<(String, serde_json::Value)>, usize)>, lines: &[Line], gate: Option<u64>, desc: u64) {
    let r = std::panic::catch_unwind(|| check_case(lines, gate));
    match r {
        Ok(Ok((mg, steps))) => rep_items.push((desc, mg > 0 || lines.len() > 1, None, steps)),
        Ok(Err(msg)) => rep_items.push((desc, true, Some((msg, describe(lines, gate))), 0)),
        Err(p) => rep_items.push((desc, true, Some((format!("panic: {} at {}", crate::util::panic_message(&p), crate::util::short_loc(&crate::util::last_panic_loc())), describe(lines, gate))), 0)),
    }
}

pub fn run(rep: &mut Report, thorough: bool, random_cases: u64, replay: Option<&str>) {
    crate::util::install_quiet_panic_hook();
    rep.rule = format!(
        "exhaustive: all sequences of <= {} lines over an alphabet of {} line kinds x (contiguous|gap) x vDSO address in (none | each line start); random: sequences of up to 400 lines with random sizes/adjacency/names. Oracle: partition reconstruction + per-merge-step justification. distinct = hash(line kinds, adjacency, gate); non-trivial = >= 2 lines",
        if thorough { 4 } else { 3 },
        ALPHABET.len()
    );
    if let Some(r) = replay {
        // replay file content: JSON {"maps": [...], "gate": ...}: re-parse the text lines
        if let Ok(v) = serde_json::from_str::<serde_json::Value>(r) {
            let maps: Vec<String> = v["maps"].as_array().map(|a| a.iter().filter_map(|x| x.as_str().map(|s| s.to_string())).collect()).unwrap_or_default();
            let lines: Vec<Line> = maps.iter().filter_map(|t| parse_line(t)).collect();
            let gate = v["gate"].as_str().and_then(|g| u64::from_str_radix(g, 16).ok());
            let mut items = Vec::new();
            eval(&mut items, &lines, gate, 0);
            for (d, nt, f, _) in items {
                rep.case(d, nt);
                if let Some((msg, det)) = f {
                    rep.violation(&sig_of(&msg), json!({"message": msg, "case": det}));
                }
            }
            rep.count("merge_steps_checked", 1);
            return;
        }
    }
    let maxlen = if cfg!(miri) { 1 } else if thorough { 4 } else { 3 };
    let k = ALPHABET.len() as u64;
    // enumerate: sequence encoded in base (k*2)
    let base = k * 2;
    let mut total: u64 = 0;
    for len in 1..=maxlen {
        total += base.pow(len);
    }
    let chunk: u64 = 4096;
    let nchunks = total.div_ceil(chunk);
    let results = crate::util::par_map(nchunks, |c| {
        let mut items = Vec::new();
        let lo = c * chunk;
        let hi = std::cmp::min(total, lo + chunk);
        for idx in lo..hi {
            // decode idx -> (len, code)
            let mut rem = idx;
            let mut len = 1;
            loop {
                let n = base.pow(len);
                if rem < n {
                    break;
                }
                rem -= n;
                len += 1;
            }
            let mut kinds = Vec::new();
            let mut code = rem;
            for _ in 0..len {
                let d = code % base;
                code /= base;
                kinds.push(((d / 2) as usize, d % 2 == 0, 1 + (d % 3 == 0) as u64));
            }
            let lines = build_lines(&kinds, 0x7f00_0000_0000);
            // gate: none, and each line start
            eval(&mut items, &lines, None, idx * 8);
            for (gi, l) in lines.iter().enumerate() {
                eval(&mut items, &lines, Some(l.start), idx * 8 + 1 + gi as u64);
            }
        }
        items
    });
    let mut exhaustive_cases = 0u64;
    for items in results {
        for (d, nt, f, steps) in items {
            exhaustive_cases += 1;
            rep.case(d, nt);
            rep.count("merge_steps_checked", steps as u64);
            if let Some((msg, det)) = f {
                rep.violation(&sig_of(&msg), json!({"message": msg, "case": det, "replay_arg": det.to_string()}));
            }
        }
    }
    rep.count("exhaustive_cases", exhaustive_cases);
    rep.exhaustive = Some(!cfg!(miri));
    rep.note(&format!("exhaustive part complete for sequences of <= {maxlen} lines; the random part is sampled"));
    // random long sequences
    let seed = rep.seed;
    let results = crate::util::par_map(random_cases, |i| {
        let mut rng = Rng::new(seed.wrapping_mul(31_000_003).wrapping_add(i));
        let n = match rng.below(4) {
            _ if cfg!(miri) => rng.range(1, 12),
            0 => rng.range(1, 8),
            1 => rng.range(8, 60),
            _ => rng.range(2, 400),
        } as usize;
        let mut kinds = Vec::new();
        for _ in 0..n {
            // favour realistic library shapes: runs of the same file
            let kind = if rng.chance(1, 2) && !kinds.is_empty() {
                let (pk, _, _): (usize, bool, u64) = *kinds.last().unwrap();
                *rng.pick(&[pk, 0, 1, 2, 5, 10, 12])
            } else {
                rng.usize_below(ALPHABET.len())
            };
            kinds.push((kind, rng.chance(3, 4), rng.range(1, 64)));
        }
        let base = *rng.pick(&[0x1000u64, 0x5555_0000_0000, 0x7f00_0000_0000, 0xffff_0000]);
        let lines = build_lines(&kinds, base);
        let gate = if rng.chance(1, 2) { Some(rng.pick(&lines).start) } else if rng.chance(1, 2) { Some(rng.next()) } else { None };
        let mut items = Vec::new();
        let d = fnv(format!("{kinds:?}{gate:?}").as_bytes());
        eval(&mut items, &lines, gate, d);
        (items, if i < 2 { Some(describe(&lines[..std::cmp::min(lines.len(), 8)], gate)) } else { None })
    });
    for (items, sample) in results {
        for (d, nt, f, steps) in items {
            rep.case(d, nt);
            rep.count("random_cases", 1);
            rep.count("merge_steps_checked", steps as u64);
            if let Some((msg, det)) = f {
                rep.violation(&sig_of(&msg), json!({"message": msg, "case": det, "replay_arg": det.to_string()}));
            }
        }
        if let Some(s) = sample {
            rep.sample(s);
        }
    }
    rep.require("merge_steps_checked", if cfg!(miri) { 5 } else { 100 });
}

fn parse_line(t: &str) -> Option<Line> {
    let mut it = t.splitn(6, ' ');
    let addr = it.next()?;
    let perms = it.next()?;
    let off = it.next()?;
    let _dev = it.next()?;
    let _ino = it.next()?;
    let name = it.next().map(|s| s.trim()).filter(|s| !s.is_empty()).map(|s| s.to_string());
    let (s, e) = addr.split_once('-')?;
    let perms: &'static str = match perms {
        "r-xp" => "r-xp",
        "r--p" => "r--p",
        "rw-p" => "rw-p",
        "---p" => "---p",
        "---s" => "---s",
        "rw-s" => "rw-s",
        "rwxp" => "rwxp",
        _ => "rw-p",
    };
    Some(Line { start: u64::from_str_radix(s, 16).ok()?, end: u64::from_str_radix(e, 16).ok()?, perms, offset: u64::from_str_radix(off, 16).ok()?, name })
}


/// Live clause: the mapping list a dumper derives from a REAL target, under every combination of
/// caller-supplied auxiliary-vector values (each of AT_PHNUM, AT_PHDR, AT_SYSINFO_EHDR, AT_ENTRY
/// supplied with its true value or left for the writer to fetch from the kernel). Whatever the
/// caller supplies, the mapping that starts at the vDSO address the auxiliary vector reports
/// must carry the Linux gate name, and the list must be ascending and cover every map line.
pub fn run_live(rep: &mut Report, thorough: bool) {
    use crate::target::Target;
    use crate::tspec::*;
    use minidump_writer::minidump_writer::DirectAuxvDumpInfo;
    use minidump_writer::ptrace_dumper::PtraceDumper;
    let mut rng = crate::rng::Rng::new(rep.seed.wrapping_mul(131_313));
    for _ in 0..(if thorough { 20 } else { 2 }) {
        let mut b = Builder::new();
        b.sentinel(&mut rng, Mode::Pause, &StackShape::default(), None, None);
        let t = match Target::spawn(b.spec.clone(), &b.opts) {
            Ok(t) => t,
            Err(e) => {
                rep.inconclusive(format!("target did not start: {e}"));
                continue;
            }
        };
        let m = t.manifest.clone();
        if m.at_sysinfo_ehdr == 0 {
            rep.note("target has no vDSO: live clause skipped");
            continue;
        }
        for mask in 0..16u32 {
            let info = DirectAuxvDumpInfo {
                program_header_count: if mask & 1 != 0 { m.at_phnum } else { 0 },
                program_header_address: if mask & 2 != 0 { m.at_phdr } else { 0 },
                linux_gate_address: if mask & 4 != 0 { m.at_sysinfo_ehdr } else { 0 },
                entry_address: if mask & 8 != 0 { m.at_entry } else { 0 },
            };
            let dumper = match PtraceDumper::new_report_soft_errors(t.pid, std::time::Duration::from_secs(10), info.into(), error_graph::strategy::DontCare) {
                Ok(d) => d,
                Err(e) => {
                    rep.violation("C13 live: dumper could not be created on a healthy target", json!({"supplied_mask": mask, "error": format!("{e:?}")}));
                    continue;
                }
            };
            rep.case(crate::rng::fnv(format!("live/{mask}").as_bytes()), true);
            rep.count("live_mapping_lists_checked", 1);
            let gate = dumper.mappings.iter().find(|mp| mp.start_address as u64 == m.at_sysinfo_ehdr);
            let name = gate.and_then(|g| g.name.as_ref().map(|n| n.to_string_lossy().into_owned()));
            if name.as_deref() != Some("linux-gate.so") {
                rep.violation("C13 live: the mapping at the vDSO address is not named as the Linux gate library", json!({"supplied": {"phnum": mask & 1 != 0, "phdr": mask & 2 != 0, "gate": mask & 4 != 0, "entry": mask & 8 != 0}, "name": name, "vdso": format!("{:#x}", m.at_sysinfo_ehdr)}));
            }
            // every map line inside exactly one derived mapping
            for l in t.maps() {
                let holders = dumper.mappings.iter().filter(|mp| mp.start_address as u64 <= l.start && l.end <= (mp.start_address + mp.size) as u64).count();
                if holders != 1 {
                    rep.violation("C13 live: a line of the target's memory map is not inside exactly one derived mapping", json!({"line": format!("{:x}-{:x} {} {}", l.start, l.end, l.perms, l.name), "holders": holders}));
                    break;
                }
            }
            drop(dumper);
        }
        // The caller's vector and the one procfs serves can disagree (the kernel never updates the
        // copy it saved at exec, e.g. after the target moved its vDSO). A field the caller supplied
        // is the value in force - only fields left 0 are completed from procfs - so the mapping that
        // starts at the address the CALLER reported is the one named as the gate library, whichever
        // of the other fields are supplied.
        let alt = b.sentinels[0].stack_base;
        for mask in [4u32, 5, 6, 12, 7, 13, 14, 15] {
            let info = DirectAuxvDumpInfo {
                program_header_count: if mask & 1 != 0 { m.at_phnum } else { 0 },
                program_header_address: if mask & 2 != 0 { m.at_phdr } else { 0 },
                linux_gate_address: alt,
                entry_address: if mask & 8 != 0 { m.at_entry } else { 0 },
            };
            let Ok(dumper) = PtraceDumper::new_report_soft_errors(t.pid, std::time::Duration::from_secs(10), info.into(), error_graph::strategy::DontCare) else {
                rep.violation("C13 live: dumper could not be created on a healthy target", json!({"supplied_mask": mask, "gate": "differs from procfs"}));
                continue;
            };
            rep.case(crate::rng::fnv(format!("live-alt/{mask}").as_bytes()), true);
            rep.count("live_lists_with_a_caller_gate_address_that_differs_from_procfs", 1);
            let name = dumper.mappings.iter().find(|mp| mp.start_address as u64 == alt).and_then(|g| g.name.as_ref().map(|n| n.to_string_lossy().into_owned()));
            if name.as_deref() != Some("linux-gate.so") {
                rep.violation("C13 live: the mapping at the vDSO address the caller reported is not named as the Linux gate library", json!({"supplied": {"phnum": mask & 1 != 0, "phdr": mask & 2 != 0, "gate": true, "entry": mask & 8 != 0}, "name": name, "caller_gate": format!("{alt:#x}"), "procfs_gate": format!("{:#x}", m.at_sysinfo_ehdr)}));
            }
        }
    }
    rep.require("live_mapping_lists_checked", 16);
    rep.require("live_lists_with_a_caller_gate_address_that_differs_from_procfs", 8);
}
