//! C04 — the thread list is a complete, register-accurate, consistent snapshot.

use crate::dump::{self, DumpOpts, Outcome};
use crate::image::{self, Context};
use crate::report::Report;
use crate::rng::{fnv, Rng};
use crate::spec::*;
use crate::target::Target;
use crate::tspec::*;
use minidump_writer::verif_hooks::{self, Point};
use serde_json::json;
use std::sync::{Arc, Mutex};

/// RegBlock order: rax rbx rcx rdx rsi rdi rbp rsp r8..r15 -> context accessor
pub fn ctx_gpr(c: &Context, i: usize) -> u64 {
    match i {
        0 => c.rax(),
        1 => c.rbx(),
        2 => c.rcx(),
        3 => c.rdx(),
        4 => c.rsi(),
        5 => c.rdi(),
        6 => c.rbp(),
        7 => c.rsp(),
        n => c.r(n),
    }
}
pub const GPR_NAMES: [&str; 16] = ["rax", "rbx", "rcx", "rdx", "rsi", "rdi", "rbp", "rsp", "r8", "r9", "r10", "r11", "r12", "r13", "r14", "r15"];

/// Compare a captured context with a sentinel's ground truth. Returns mismatching field names.
pub fn compare_sentinel(c: &Context, s: &SentinelTruth) -> (Vec<String>, u64) {
    let mut bad = Vec::new();
    let mut compared = 0u64;
    for i in 0..16 {
        let skip = match s.mode {
            Mode::Pause => i == RAX || i == RCX || i == R11,
            Mode::Spinner3 => i == R12,
            Mode::Spin => false,
        };
        if skip {
            continue;
        }
        compared += 1;
        if ctx_gpr(c, i) != s.regs.gpr[i] {
            bad.push(format!("{}: captured {:#x} expected {:#x}", GPR_NAMES[i], ctx_gpr(c, i), s.regs.gpr[i]));
        }
    }
    // instruction pointer
    compared += 1;
    match s.mode {
        Mode::Pause => {
            // blocked inside pause(2): rip is just after the syscall instruction. A thread whose
            // pause was interrupted by a stop and that has been continued (SIGCONT placed during the
            // dump) restarts the call: the kernel steps rip back onto the 2-byte syscall instruction
            // and restores rax = 34; caught there before it re-enters the kernel, that IS its state.
            let restarting = c.rip + 2 == s.stub_addr + STUB_PAUSE_AFTER_SYSCALL && ctx_gpr(c, RAX) == 34;
            if c.rip != s.stub_addr + STUB_PAUSE_AFTER_SYSCALL && !restarting {
                bad.push(format!("rip: captured {:#x} expected {:#x} (after the syscall instruction)", c.rip, s.stub_addr + STUB_PAUSE_AFTER_SYSCALL));
            }
        }
        _ => {
            if !(s.stub_addr <= c.rip && c.rip < s.stub_addr + s.stub_len) {
                bad.push(format!("rip: captured {:#x} outside the thread's loop [{:#x},+{})", c.rip, s.stub_addr, s.stub_len));
            }
        }
    }
    // flags: the bits the thread set (arithmetic flags + DF)
    if s.mode != Mode::Spinner3 {
        compared += 1;
        if (c.eflags as u64) & 0x24_0CD5 != s.regs.rflags & 0x24_0CD5 {
            bad.push(format!("eflags: captured {:#x} expected {:#x} (mask 0x240cd5)", c.eflags, s.regs.rflags));
        }
    }
    // segments
    compared += 5;
    if c.cs != 0x33 {
        bad.push(format!("cs: captured {:#x} expected 0x33", c.cs));
    }
    if c.ss != 0x2b {
        bad.push(format!("ss: captured {:#x} expected 0x2b", c.ss));
    }
    if c.ds != s.regs.ds {
        bad.push(format!("ds: captured {:#x} expected {:#x}", c.ds, s.regs.ds));
    }
    if c.es != s.regs.es {
        bad.push(format!("es: captured {:#x} expected {:#x}", c.es, s.regs.es));
    }
    if c.gs != s.regs.gs {
        bad.push(format!("gs: captured {:#x} expected {:#x}", c.gs, s.regs.gs));
    }
    // SSE
    for i in 0..16 {
        compared += 1;
        if c.xmm(i) != &s.regs.xmm[i][..] {
            bad.push(format!("xmm{i}"));
        }
    }
    compared += 1;
    if c.fs_mxcsr() & 0xffc0 != s.regs.mxcsr & 0xffc0 {
        bad.push(format!("mxcsr: captured {:#x} expected {:#x}", c.fs_mxcsr(), s.regs.mxcsr));
    }
    // x87: ST(i) is the (7-i)-th pushed value
    compared += 1;
    if c.fcw() != s.regs.fcw {
        bad.push(format!("x87 control word: captured {:#x} expected {:#x}", c.fcw(), s.regs.fcw));
    }
    for i in 0..8 {
        compared += 1;
        if &c.st(i)[..10] != &s.regs.st[7 - i][..] {
            bad.push(format!("st{i}"));
        }
    }
    (bad, compared)
}

fn find_tid_in_suspend_errors(soft: &serde_json::Value, tid: i32) -> bool {
    let Some(arr) = soft.as_array() else { return false };
    for e in arr {
        if let Some(sub) = e.get("SuspendThreadsErrors") {
            let text = sub.to_string();
            // the tid appears as a JSON number inside the sub-list
            let needle = tid.to_string();
            let mut from = 0;
            while let Some(p) = text[from..].find(&needle) {
                let s = from + p;
                let e2 = s + needle.len();
                let before = text[..s].chars().last().map(|c| c.is_ascii_digit()).unwrap_or(false);
                let after = text[e2..].chars().next().map(|c| c.is_ascii_digit()).unwrap_or(false);
                if !before && !after {
                    return true;
                }
                from = e2;
            }
        }
    }
    false
}

#[derive(Clone, Debug)]
struct Plan {
    n: usize,
    exiters: usize,
    exit_mode: u8, // 0 none, 1 at ThreadsEnumerated (SIGCONT first), 2 StopProcess failspot + ThreadsEnumerated, 3 at BeforeAttach(tid)
    delay_at: Option<u32>,
    null_sp: bool,
    /// the dumping thread is interrupted by signals (handler without SA_RESTART) while it attaches
    /// to threads that keep running (group stop disabled) under CPU contention
    storm: bool,
    /// one sentinel thread carries a name that is not valid UTF-8: the writer may refuse the dump
    /// (Err), but a thread list it does publish must still be accurate
    odd_name: bool,
    /// the kernel's thread-id counter wraps in the middle of thread creation: later threads have
    /// smaller ids than earlier ones
    wrap: bool,
    /// the thread-group leader has exited (it stays in the task directory as a zombie that nobody
    /// can attach to); every other thread is alive and attachable
    leader_gone: bool,
    /// one ordinary thread - created before all the sentinels - is held by a foreign tracer for the
    /// whole dump: it cannot be attached to, every thread enumerated after it can
    held: bool,
}

pub fn run(rep: &mut Report, thorough: bool) {
    crate::util::install_quiet_panic_hook();
    rep.rule = "targets of 1..64 threads: sentinel threads (spin / blocked in a raw pause syscall / spinner triple) whose every register is generated ground truth, exiter threads told to leave at the `threads enumerated` or `before attach` hook point (k of n), a null-stack-pointer thread; delays injected after the i-th flush for every i so that an early resume shows as a large counter gap. Oracle: per-field context comparison, tid set equality, vanished-thread soft errors, spinner invariant app <= stack slot <= r12 <= app+1. distinct = hash(thread count, exit plan, delay point, registers); non-trivial = Ok dump with >= 1 sentinel context compared".into();
    let mut rng = Rng::new(rep.seed.wrapping_mul(404_041));
    let counts: Vec<usize> = if thorough { vec![1, 2, 5, 20, 33, 64] } else { vec![1, 2, 5, 20, 33] };
    let mut plans = Vec::new();
    let reps = if thorough { 500 } else { 12 };
    let mut delay_cursor = 0u32;
    for r in 0..reps {
        for &n in &counts {
            let exiters = if n >= 3 { rng.range(0, std::cmp::min(4, n as u64 - 2)) as usize } else { 0 };
            delay_cursor = (delay_cursor + 1) % 20;
            plans.push(Plan {
                n,
                exiters,
                exit_mode: if exiters == 0 { 0 } else { 1 + rng.below(3) as u8 },
                delay_at: if r % 2 == 0 { Some(delay_cursor) } else { None },
                null_sp: n >= 3 && rng.chance(1, 2),
                storm: false,
                odd_name: false,
                wrap: false,
                leader_gone: false,
                held: false,
            });
        }
    }
    for k in 0..(if thorough { 60 } else { 6 }) {
        plans.push(Plan { n: [5usize, 20, 33][k % 3], exiters: 0, exit_mode: 0, delay_at: None, null_sp: false, storm: true, odd_name: false, wrap: false, leader_gone: false, held: false });
    }
    for k in 0..(if thorough { 20 } else { 3 }) {
        plans.push(Plan { n: [3usize, 5, 21][k % 3], exiters: 0, exit_mode: 0, delay_at: None, null_sp: false, storm: false, odd_name: true, wrap: false, leader_gone: false, held: false });
    }
    for k in 0..(if thorough { 4 } else { 1 }) {
        plans.push(Plan { n: 6 + k, exiters: 0, exit_mode: 0, delay_at: None, null_sp: false, storm: false, odd_name: false, wrap: true, leader_gone: false, held: false });
    }
    for k in 0..(if thorough { 24 } else { 4 }) {
        plans.push(Plan { n: [4usize, 7, 22][k % 3], exiters: 0, exit_mode: 0, delay_at: None, null_sp: false, storm: false, odd_name: false, wrap: false, leader_gone: k % 2 == 0, held: k % 2 == 1 || k % 4 == 2 });
    }
    for plan in plans {
        let mut b = Builder::new();
        let held_idx = if plan.held { Some(b.thread(ThreadKind::Sleeper, Some(b"held".to_vec()))) } else { None };
        let n_sent = plan.n.saturating_sub(1).saturating_sub(plan.exiters).saturating_sub(plan.null_sp as usize);
        let mut spinners = 0;
        let mut spinner3: Option<usize> = None;
        for k in 0..n_sent {
            let mode = if spinner3.is_none() && k == 0 && plan.n > 1 {
                Mode::Spinner3
            } else if spinners < 3 && rng.chance(3, 10) {
                spinners += 1;
                Mode::Spin
            } else {
                Mode::Pause
            };
            let shape = StackShape { pages: 2, sp_offset: (PAGE + (rng.below(500) * 8)) as i64, ..Default::default() };
            let name = if plan.odd_name && k == n_sent / 2 { Some(vec![0xff, 0xfe, b'o', b'd', b'd']) } else { None };
            let i = b.sentinel(&mut rng, mode, &shape, name, None);
            if mode == Mode::Spinner3 {
                spinner3 = Some(i);
            }
        }
        let mut exiter_idx = Vec::new();
        for _ in 0..plan.exiters {
            exiter_idx.push(b.thread(ThreadKind::Exiter, Some(b"exiter".to_vec())));
        }
        // storm plans: two threads that cannot stop at once (blocked as the parent of a vfork-style
        // child), so that the dumping thread really sleeps in its wait while signals hit it
        let mut slow_idx: Vec<usize> = Vec::new();
        if plan.storm {
            slow_idx.push(b.thread(ThreadKind::VforkWaiter { ms: 12 }, Some(b"vforker".to_vec())));
            slow_idx.push(b.thread(ThreadKind::VforkWaiter { ms: 23 }, Some(b"vforker".to_vec())));
        }
        let mut null_idx = None;
        if plan.null_sp {
            let shape = StackShape { pages: 0, sp_offset: 0, ..Default::default() };
            let i = b.sentinel(&mut rng, Mode::Pause, &shape, Some(b"nullsp".to_vec()), None);
            null_idx = Some(i);
        }
        // a thread whose stack pointer is an unusual but NON-null value (all ones, tiny, odd, the
        // sign bit, non-canonical): only the null stack pointer marks a thread to be left out
        if plan.n >= 2 {
            let sp = *rng.pick(&[u64::MAX, u64::MAX, 1, 7, 8, 0xfff, 1u64 << 63, u64::MAX - 7, 0x7fff_ffff_ffff, 0xffff_8000_0000_0000, u32::MAX as u64]);
            let shape = StackShape { pages: 0, sp_offset: sp as i64, ..Default::default() };
            let mode = if rng.chance(1, 2) { Mode::Spin } else { Mode::Pause };
            b.sentinel(&mut rng, mode, &shape, Some(b"oddsp".to_vec()), None);
            rep.count("odd_sp_threads", 1);
        }
        if plan.wrap {
            b.spec.wrap_ids_before_thread = Some(b.spec.threads.len() / 2);
        }
        b.spec.leader_exit = plan.leader_gone;
        let t = match Target::spawn(b.spec.clone(), &b.opts) {
            Ok(t) => Arc::new(t),
            Err(e) => {
                rep.inconclusive(format!("target {plan:?} did not start: {e}"));
                continue;
            }
        };
        let mut o = DumpOpts::new(t.pid, t.pid);
        if plan.leader_gone {
            let t0 = std::time::Instant::now();
            while t.thread_status(t.pid).map(|s| s.0) != Some('Z') && t0.elapsed().as_secs() < 20 {
                std::thread::sleep(std::time::Duration::from_millis(1));
            }
            if t.thread_status(t.pid).map(|s| s.0) != Some('Z') {
                rep.inconclusive("the leader of an exited-leader target never became a zombie".into());
                continue;
            }
            o = DumpOpts::new(t.pid, t.manifest.tids[b.sentinels[0].index]);
            o.stop_timeout_ms = Some(30);
            rep.count("targets_whose_leader_has_exited", 1);
        }
        let _holder = match held_idx {
            Some(i) => match crate::util::Holder::hold(t.manifest.tids[i]) {
                Ok(h) => {
                    rep.count("targets_with_a_thread_held_by_a_foreign_tracer", 1);
                    Some(h)
                }
                Err(e) => {
                    rep.inconclusive(e);
                    continue;
                }
            },
            None => None,
        };
        if let Some(si) = spinner3 {
            let s = b.truth(si).unwrap();
            o.app_memory.push((s.app_word, 8));
        }
        if plan.exit_mode == 2 || plan.storm {
            o.failspots.push("StopProcess".into());
        }
        if plan.wrap {
            let tids = &t.manifest.tids;
            if t.ctl.get(CTL_WRAPPED) == 1 && tids.windows(2).any(|w| w[1] < w[0]) {
                rep.count("targets_whose_thread_ids_are_not_ascending_in_creation_order", 1);
            } else {
                rep.note("thread-id wrap-around could not be produced on this machine (pid_max too large or ids too low)");
            }
        }
        // ---- hook: place the exits / delays
        let events: Arc<Mutex<Vec<String>>> = Arc::new(Mutex::new(Vec::new()));
        let ev = events.clone();
        let tt = t.clone();
        let exit_tids: Vec<(usize, i32)> = exiter_idx.iter().map(|&i| (i, t.manifest.tids[i])).collect();
        let plan2 = plan.clone();
        let exit_all = move |tt: &Target, which: &[(usize, i32)]| {
            for (i, _) in which {
                tt.ctl.set_slot(*i, SLOT_EXIT_REQ, 1);
            }
            // logical wait: the task directory entry disappears
            let t0 = std::time::Instant::now();
            for (_, tid) in which {
                while std::path::Path::new(&format!("/proc/{}/task/{}", tt.pid, tid)).exists() {
                    if t0.elapsed().as_secs() > 20 {
                        break;
                    }
                    std::thread::sleep(std::time::Duration::from_micros(200));
                }
            }
        };
        let _g = dump::DUMP_LOCK.lock().unwrap_or_else(|e| e.into_inner());
        verif_hooks::set_sync(Some(Box::new(move |p| {
            match p {
                Point::ThreadsEnumerated => {
                    ev.lock().unwrap().push("ThreadsEnumerated".into());
                    if plan2.exit_mode == 1 {
                        unsafe {
                            libc::kill(tt.pid, libc::SIGCONT);
                        }
                        exit_all(&tt, &exit_tids);
                        ev.lock().unwrap().push(format!("exited {} threads after SIGCONT", exit_tids.len()));
                    } else if plan2.exit_mode == 2 {
                        exit_all(&tt, &exit_tids);
                        ev.lock().unwrap().push(format!("exited {} threads (group stop disabled)", exit_tids.len()));
                    }
                }
                Point::BeforeAttach(tid) => {
                    if plan2.exit_mode == 3 {
                        if let Some(x) = exit_tids.iter().find(|(_, t)| *t == tid) {
                            unsafe {
                                libc::kill(tt.pid, libc::SIGCONT);
                            }
                            exit_all(&tt, &[*x]);
                            ev.lock().unwrap().push(format!("exited {tid} right before its attach"));
                        }
                    }
                }
                Point::AfterResume => {
                    // somebody continues the process right after the writer let go of the threads:
                    // anything about the target captured from here on shows a large counter gap
                    unsafe {
                        libc::kill(tt.pid, libc::SIGCONT);
                    }
                    std::thread::sleep(std::time::Duration::from_millis(2));
                    ev.lock().unwrap().push("SIGCONT + 2 ms after resume".into());
                }
                Point::Flushed(i) => {
                    if plan2.delay_at == Some(i) {
                        std::thread::sleep(std::time::Duration::from_millis(3));
                        ev.lock().unwrap().push(format!("delayed after flush {i}"));
                    }
                }
                _ => {}
            }
        })));
        let burn_stop = Arc::new(std::sync::atomic::AtomicBool::new(false));
        let burners: Vec<std::thread::JoinHandle<()>> = if plan.storm {
            (0..crate::util::threads() + 4)
                .map(|_| {
                    let st = burn_stop.clone();
                    std::thread::spawn(move || {
                        while !st.load(std::sync::atomic::Ordering::Relaxed) {
                            std::hint::spin_loop();
                        }
                    })
                })
                .collect()
        } else {
            Vec::new()
        };
        let storm = if plan.storm { Some(crate::util::Storm::start(60)) } else { None };
        let (out, _) = dump::dump(&o);
        if let Some(st) = storm {
            let (sent, _) = st.stop();
            rep.count("tracer_storm_signals_sent_to_the_dumping_thread", sent);
            rep.count("dumps_under_tracer_storm", 1);
        }
        burn_stop.store(true, std::sync::atomic::Ordering::SeqCst);
        for h in burners {
            let _ = h.join();
        }
        verif_hooks::set_sync(None);
        drop(_g);
        let evs = events.lock().unwrap().clone();
        let desc = fnv(format!("{plan:?}/{:?}", b.sentinels.iter().map(|s| s.regs.gpr[0]).collect::<Vec<_>>()).as_bytes());
        let case = json!({"threads": plan.n, "leader_exited": plan.leader_gone, "thread_held_by_foreign_tracer": plan.held, "exiters": plan.exiters, "exit_mode": plan.exit_mode, "delay_after_flush": plan.delay_at, "null_sp_thread": plan.null_sp, "hook_events": evs});
        match out {
            Outcome::Ok(img) => {
                let im = image::decode(&img);
                let threads = im.threads.clone().unwrap_or_default();
                let soft = im.soft_errors().unwrap_or(serde_json::Value::Null);
                let mut compared_ctx = 0;
                // completeness / uniqueness
                let mut expected: Vec<i32> = if plan.leader_gone { Vec::new() } else { vec![t.pid] };
                for s in &b.sentinels {
                    if Some(s.index) != null_idx {
                        expected.push(t.manifest.tids[s.index]);
                    }
                }
                for i in &slow_idx {
                    expected.push(t.manifest.tids[*i]);
                }
                for tid in &expected {
                    let k = threads.iter().filter(|th| th.tid as i32 == *tid).count();
                    if k != 1 {
                        rep.violation(
                            &format!("C04 thread {} in the list", if k == 0 { "missing" } else { "duplicated" }),
                            json!({"case": case, "tid": tid, "occurrences": k, "soft_errors": soft}),
                        );
                    }
                }
                rep.count("tids_checked_for_presence", expected.len() as u64);
                if let Some(ni) = null_idx {
                    let tid = t.manifest.tids[ni];
                    rep.count("null_sp_threads_checked", 1);
                    if threads.iter().any(|th| th.tid as i32 == tid) {
                        rep.violation("C04 null-stack-pointer thread listed", json!({"case": case, "tid": tid}));
                    }
                }
                let all_tids: Vec<i32> = t.manifest.tids.iter().copied().chain(std::iter::once(t.pid)).collect();
                for th in &threads {
                    if !all_tids.contains(&(th.tid as i32)) {
                        rep.violation("C04 listed thread id is not a thread of the target", json!({"case": case, "tid": th.tid}));
                    }
                }
                // vanished threads
                for &(_, tid) in exiter_idx.iter().map(|&i| (i, t.manifest.tids[i])).collect::<Vec<_>>().iter() {
                    let listed = threads.iter().filter(|th| th.tid as i32 == tid).count();
                    let gone = !std::path::Path::new(&format!("/proc/{}/task/{}", t.pid, tid)).exists();
                    if plan.exit_mode != 0 && gone {
                        rep.count("vanished_threads_checked", 1);
                        if listed > 1 {
                            rep.violation("C04 vanished thread duplicated", json!({"case": case, "tid": tid}));
                        } else if listed == 0 && !find_tid_in_suspend_errors(&soft, tid) {
                            rep.violation("C04 vanished thread omitted without a soft error", json!({"case": case, "tid": tid, "soft_errors": soft}));
                        }
                    } else if listed != 1 {
                        rep.violation("C04 thread missing in the list", json!({"case": case, "tid": tid, "note": "exiter that was not told to leave"}));
                    }
                }
                // register accuracy
                for s in &b.sentinels {
                    if Some(s.index) == null_idx {
                        continue;
                    }
                    let tid = t.manifest.tids[s.index];
                    let Some(th) = threads.iter().find(|th| th.tid as i32 == tid) else { continue };
                    let Some(ctx) = &th.ctx else {
                        rep.violation("C04 context missing", json!({"case": case, "tid": tid}));
                        continue;
                    };
                    let (bad, compared) = compare_sentinel(ctx, s);
                    compared_ctx += 1;
                    rep.count("contexts_compared", 1);
                    rep.count("register_fields_compared", compared);
                    if !bad.is_empty() {
                        let first = bad[0].split(':').next().unwrap_or("").to_string();
                        let class = if first.starts_with("xmm") || first.starts_with("st") || first.starts_with("mxcsr") || first.starts_with("x87") { "fp/sse".to_string() } else { first };
                        rep.violation(&format!("C04 register mismatch ({class}, {:?} thread)", s.mode), json!({"case": case, "tid": tid, "mismatches": bad.iter().take(6).collect::<Vec<_>>()}));
                    }
                    // snapshot consistency
                    if s.mode == Mode::Spinner3 {
                        let r12 = ctx.r(12);
                        let slot_addr_ = ctx.rsp() + 8;
                        let slot = if th.stack_start <= slot_addr_ && slot_addr_ + 8 <= th.stack_start + th.stack_size as u64 {
                            let o = (th.stack_rva as u64 + (slot_addr_ - th.stack_start)) as usize;
                            Some(u64::from_le_bytes(img[o..o + 8].try_into().unwrap()))
                        } else {
                            None
                        };
                        let app = im.memory.as_ref().and_then(|m| m.iter().find(|d| d.start == s.app_word && d.size == 8)).map(|d| u64::from_le_bytes(img[d.rva as usize..d.rva as usize + 8].try_into().unwrap()));
                        match (slot, app) {
                            (Some(slot), Some(app)) => {
                                rep.count("snapshot_triples_checked", 1);
                                if !(app <= slot && slot <= r12 && r12 <= app + 1) {
                                    rep.violation(
                                        "C04 snapshot inconsistent: thread ran between register, stack and memory capture",
                                        json!({"case": case, "tid": tid, "r12": r12, "stack_slot": slot, "app_word": app, "gap": r12 as i128 - app as i128}),
                                    );
                                }
                            }
                            // (an exited leader's /proc/<pid>/maps reads empty: the writer knows no
                            // mapping, so it records no stack bytes - nothing to compare the registers with)
                            (None, _) if plan.leader_gone && th.stack_size == 0 => rep.count("exited_leader_targets_without_stack_bytes(no snapshot verdict)", 1),
                            _ => rep.violation("C04 snapshot triple not found in the image", json!({"case": case, "slot_found": slot.is_some(), "app_found": app.is_some(), "rsp": format!("{:#x}", ctx.rsp()), "stack": format!("{:#x}+{:#x}", th.stack_start, th.stack_size), "soft_errors": soft})),
                        }
                    }
                }
                rep.case(desc, compared_ctx > 0 || plan.n == 1);
                if rep.samples.len() < 4 {
                    rep.sample(case.clone());
                }
            }
            Outcome::Err(_) if plan.odd_name => {
                rep.case(desc, true);
                rep.count("dumps_refused_because_of_a_non_utf8_thread_name(no verdict)", 1);
            }
            Outcome::Err(e) => {
                // every plan here only makes best-effort thread events happen (threads leaving
                // before attach, a null-stack-pointer thread, delays): the thread list must be produced
                rep.case(desc, true);
                let kind: String = e.chars().take_while(|c| *c != '(').collect();
                rep.violation(&format!("C04 dump failed ({kind}) although only threads vanished / were skipped"), json!({"case": case, "error": e.chars().take(300).collect::<String>()}));
            }
            Outcome::Panic { message, location } => {
                rep.case(desc, true);
                rep.violation(&format!("C04 panic at {location}"), json!({"case": case, "panic": message}));
            }
        }
    }
    rep.require("contexts_compared", 20);
    rep.require("snapshot_triples_checked", 3);
    rep.require("vanished_threads_checked", 1);
    rep.require("null_sp_threads_checked", 1);
    rep.require("odd_sp_threads", 3);
    rep.require("dumps_under_tracer_storm", 3);
    rep.require("targets_whose_leader_has_exited", 2);
    rep.require("targets_with_a_thread_held_by_a_foreign_tracer", 2);
}
