//! C14 — ELF identification is total and agrees with an independent reader.

use crate::elf::{self, ElfSpec};
use crate::report::Report;
use crate::rng::{fnv, Rng};
use crate::util::{last_panic_loc, panic_message, short_loc};
use minidump_writer::module_reader::{BuildId, ProcessMemory, ReadFromModule, SoName};
use serde_json::json;

pub type Ident = (Result<Vec<u8>, String>, Result<String, String>);

/// Runs both public readers on a slice; Err(panic signature) if either panics.
pub fn identify(img: &[u8]) -> Result<Ident, (String, String)> {
    let _w = crate::util::watch_call("ELF identification of a byte image", Some(img));
    let r = std::panic::catch_unwind(|| {
        let id = BuildId::read_from_module(ProcessMemory::Slice(img)).map(|b| b.0).map_err(|e| format!("{e}"));
        let so = SoName::read_from_module(ProcessMemory::Slice(img)).map(|s| s.0).map_err(|e| format!("{e}"));
        (id, so)
    });
    r.map_err(|p| (panic_message(&p), short_loc(&last_panic_loc())))
}

fn hex(b: &[u8]) -> String {
    b.iter().map(|x| format!("{x:02x}")).collect()
}

struct Item {
    desc: u64,
    nontrivial: bool,
    counters: Vec<(&'static str, u64)>,
    violation: Option<(String, serde_json::Value)>,
    sample: Option<serde_json::Value>,
}

fn item(desc: u64, nontrivial: bool) -> Item {
    Item { desc, nontrivial, counters: Vec::new(), violation: None, sample: None }
}

fn check_synthetic(seed: u64) -> Item {
    let mut rng = Rng::new(seed);
    let mut spec = ElfSpec::random(&mut rng);
    if rng.chance(1, 6) {
        spec.vaddr_bias = *rng.pick(&[0x1000u64, 0x40_0000, 0x10_0000_0000]);
        if !spec.bits64 {
            spec.vaddr_bias &= 0xffff_ffff;
        }
    }
    // one image in five has been through a post-link editor: its string table is reached through a
    // further PT_LOAD with its own address-to-offset delta
    spec.strtab_own_segment = seed % 5 == 0;
    let built = elf::build(&spec);
    let mut it = item(fnv(format!("{:?}{:?}{:?}{}{}{}{}", spec.phdr_note, spec.section_note, spec.soname, spec.bits64, spec.section_table, spec.text.len(), spec.vaddr_bias).as_bytes()), true);
    // expected by construction
    let exp_id: Option<Vec<u8>> = if let Some(id) = &spec.phdr_note {
        Some(id.clone())
    } else if let (Some(id), true) = (&spec.section_note, spec.section_table) {
        Some(id.clone())
    } else if spec.section_table {
        Some(elf::xor_fold(&spec.text[..std::cmp::min(4096, spec.text.len())]))
    } else {
        None
    };
    let facts = elf::read_facts(&built.bytes);
    let case = json!({"kind": "synthetic", "seed": seed, "bits64": spec.bits64, "phdr_note": spec.phdr_note.as_ref().map(|b| hex(b)), "section_note": spec.section_note.as_ref().map(|b| hex(b)), "soname": spec.soname, "section_table": spec.section_table, "text_len": spec.text.len(), "vaddr_bias": spec.vaddr_bias});
    if !facts.wellformed || facts.build_id.as_ref().map(|x| x.0.clone()) != exp_id || facts.soname != spec.soname {
        it.violation = Some(("HARNESS oracle disagrees with construction".into(), json!({"case": case, "oracle": format!("{facts:?}")})));
        return it;
    }
    it.counters.push(("synthetic_images", 1));
    match identify(&built.bytes) {
        Err((msg, loc)) => {
            it.violation = Some((format!("C14 panic at {loc}"), json!({"case": case, "panic": msg, "replay_arg": format!("synthetic:{seed}")})));
        }
        Ok((id, so)) => {
            let id_ok = match (&id, &exp_id) {
                (Ok(a), Some(b)) => a == b,
                (Err(_), None) => true,
                _ => false,
            };
            let so_ok = match (&so, &spec.soname) {
                (Ok(a), Some(b)) => a == b,
                (Err(_), None) => true,
                _ => false,
            };
            it.counters.push(("build_ids_compared", 1));
            it.counters.push(("sonames_compared", 1));
            if !id_ok {
                it.violation = Some((
                    format!("C14 build-id differs from independent reader (synthetic, bias={})", if spec.vaddr_bias != 0 { "nonzero" } else { "0" }),
                    json!({"case": case, "got": id.as_ref().map(|b| hex(b)).map_err(|e| e.clone()), "expected": exp_id.as_ref().map(|b| hex(b)), "replay_arg": format!("synthetic:{seed}")}),
                ));
            } else if !so_ok {
                it.violation = Some((
                    format!("C14 soname differs from independent reader (synthetic, bias={})", if spec.vaddr_bias != 0 { "nonzero" } else { "0" }),
                    json!({"case": case, "got": so, "expected": spec.soname, "replay_arg": format!("synthetic:{seed}")}),
                ));
            }
            if seed % 5000 == 1 {
                it.sample = Some(json!({"case": case, "build_id": id.map(|b| hex(&b)).ok(), "soname": so.ok()}));
            }
        }
    }
    it
}

/// structure-aware corruption of a synthetic seed: totality only
fn check_mutant(seed: u64) -> Item {
    let mut rng = Rng::new(seed ^ 0xabcdef);
    let mut spec = ElfSpec::random(&mut rng);
    spec.section_table = spec.section_table || rng.chance(1, 2);
    let built = elf::build(&spec);
    let mut img = built.bytes.clone();
    let nmut = if rng.chance(2, 3) { 1 } else { 2 };
    let mut what = Vec::new();
    for _ in 0..nmut {
        let f = rng.pick(&built.fields).clone();
        let vals = if rng.chance(1, 3) { elf::relational_values(&built.bytes, &built.fields, f.size) } else { elf::boundary_values(img.len(), f.size) };
        let v = if rng.chance(5, 6) { *rng.pick(&vals) } else { rng.next() };
        elf::set_field(&mut img, &f, v);
        what.push(format!("{}={:#x}", f.name, v));
    }
    if rng.chance(1, 10) {
        let n = rng.usize_below(img.len());
        img.truncate(n);
        what.push(format!("truncate={n}"));
    }
    let mut it = item(fnv(what.join(",").as_bytes()) ^ spec.bits64 as u64, true);
    it.counters.push(("mutated_images", 1));
    if let Err((msg, loc)) = identify(&img) {
        it.violation = Some((format!("C14 panic at {loc}"), json!({"case": {"kind": "mutant", "seed": seed, "bits64": spec.bits64, "mutations": what}, "panic": msg, "replay_arg": format!("mutant:{seed}")})));
    } else if seed % 20000 == 3 {
        it.sample = Some(json!({"kind": "mutant", "seed": seed, "mutations": what}));
    }
    it
}

/// every (field, boundary value) pair singly on a fixed pair of seeds — exhaustive part
fn single_field_sweep(bits64: bool, section_only: bool) -> Vec<Item> {
    let spec = ElfSpec {
        bits64,
        phdr_note: if section_only { None } else { Some((1..=20).collect()) },
        section_note: if section_only { Some((1..=20).collect()) } else { None },
        soname: Some("libsweep.so.3".into()),
        section_table: true,
        text: (0..300u32).map(|i| (i * 7) as u8).collect(),
        vaddr_bias: 0,
        data_pages: 1,
        empty_first_note: false,
        text_skew: 0,
        soname_last: false,
        dynamic_section_cuts_null: false,
        big_endian: false,
        strtab_own_segment: false,
    };
    let built = elf::build(&spec);
    let mut out = Vec::new();
    for f in &built.fields {
        let mut vals = elf::boundary_values(built.bytes.len(), f.size);
        vals.extend(elf::relational_values(&built.bytes, &built.fields, f.size));
        vals.sort();
        vals.dedup();
        for v in vals {
            let mut img = built.bytes.clone();
            elf::set_field(&mut img, f, v);
            let mut it = item(fnv(format!("sweep{bits64}{}{v}", f.name).as_bytes()), true);
            it.counters.push(("single_field_sweep", 1));
            if let Err((msg, loc)) = identify(&img) {
                it.violation = Some((format!("C14 panic at {loc}"), json!({"case": {"kind": "sweep", "bits64": bits64, "field": f.name, "value": format!("{v:#x}")}, "panic": msg})));
            }
            out.push(it);
        }
    }
    // offset x size pairs of every program / section header (both set to boundary values)
    let names: Vec<String> = built.fields.iter().map(|f| f.name.clone()).collect();
    for (a, b) in [("p_offset", "p_filesz"), ("sh_offset", "sh_size"), ("p_vaddr", "p_memsz"), ("sh_name", "sh_offset")] {
        for fa in built.fields.iter().filter(|f| f.name.ends_with(a)) {
            let prefix = &fa.name[..fa.name.len() - a.len()];
            let Some(ib) = names.iter().position(|n| *n == format!("{prefix}{b}")) else { continue };
            let fb = &built.fields[ib];
            for va in elf::boundary_values(built.bytes.len(), fa.size) {
                for vb in elf::boundary_values(built.bytes.len(), fb.size) {
                    let mut img = built.bytes.clone();
                    elf::set_field(&mut img, fa, va);
                    elf::set_field(&mut img, fb, vb);
                    let mut it = item(fnv(format!("pair{bits64}{section_only}{}{va}{vb}", fa.name).as_bytes()), true);
                    it.counters.push(("field_pair_sweep", 1));
                    if let Err((msg, loc)) = identify(&img) {
                        it.violation = Some((format!("C14 panic at {loc}"), json!({"case": {"kind": "pair-sweep", "bits64": bits64, "fields": [fa.name.clone(), fb.name.clone()], "values": [format!("{va:#x}"), format!("{vb:#x}")]}, "panic": msg})));
                    }
                    out.push(it);
                }
            }
        }
    }
    // cross pairs: string-table location fields x every section's name offset (the section-name
    // lookup combines fields of two different headers)
    if section_only {
        let strtab_fields: Vec<&elf::Field> = built.fields.iter().filter(|f| f.name == "sh3.sh_offset" || f.name == "sh3.sh_size" || f.name == "e_shstrndx" || f.name == "sh2.sh_offset").collect();
        let name_fields: Vec<&elf::Field> = built.fields.iter().filter(|f| f.name.ends_with(".sh_name")).collect();
        for fa in &strtab_fields {
            for fb in &name_fields {
                for va in elf::boundary_values(built.bytes.len(), fa.size) {
                    for vb in elf::boundary_values(built.bytes.len(), fb.size) {
                        let mut img = built.bytes.clone();
                        elf::set_field(&mut img, fa, va);
                        elf::set_field(&mut img, fb, vb);
                        let mut it = item(fnv(format!("cross{bits64}{}{}{va}{vb}", fa.name, fb.name).as_bytes()), true);
                        it.counters.push(("field_pair_sweep", 1));
                        if let Err((msg, loc)) = identify(&img) {
                            it.violation = Some((format!("C14 panic at {loc}"), json!({"case": {"kind": "cross-pair-sweep", "bits64": bits64, "fields": [fa.name.clone(), fb.name.clone()], "values": [format!("{va:#x}"), format!("{vb:#x}")]}, "panic": msg})));
                        }
                        out.push(it);
                    }
                }
            }
        }
    }
    // every truncation of the seed image
    for n in 0..built.bytes.len() {
        if n > 1300 && n % 97 != 0 {
            continue;
        }
        let mut it = item(fnv(format!("trunc{bits64}{n}").as_bytes()), n > 16);
        it.counters.push(("truncations", 1));
        if let Err((msg, loc)) = identify(&built.bytes[..n]) {
            it.violation = Some((format!("C14 panic at {loc}"), json!({"case": {"kind": "truncation", "bits64": bits64, "len": n}, "panic": msg})));
        }
        out.push(it);
    }
    out
}

fn check_random_bytes(seed: u64) -> Item {
    let mut rng = Rng::new(seed ^ 0x5151);
    let n = *rng.pick(&[0usize, 1, 15, 16, 51, 52, 63, 64, 65, 120, 500, 5000]);
    let mut img = rng.bytes(n);
    if n >= 16 && rng.chance(3, 4) {
        img[..4].copy_from_slice(b"\x7fELF");
        img[4] = *rng.pick(&[1u8, 2, 2, 0, 3]);
        img[5] = *rng.pick(&[1u8, 1, 2, 0]);
        img[6] = 1;
    }
    let mut it = item(fnv(&img), n >= 52);
    it.counters.push(("random_byte_images", 1));
    if let Err((msg, loc)) = identify(&img) {
        it.violation = Some((format!("C14 panic at {loc}"), json!({"case": {"kind": "random", "seed": seed, "len": n}, "panic": msg, "replay_arg": format!("random:{seed}")})));
    }
    it
}

pub fn collect_system_elfs(cap: usize, seed: u64) -> Vec<String> {
    let mut files = Vec::new();
    let mut stack: Vec<std::path::PathBuf> = ["/usr/bin", "/usr/lib", "/usr/libexec", "/usr/sbin", "/lib", "/root/.cargo/bin"].iter().map(|s| s.into()).collect();
    let mut seen_dirs = std::collections::HashSet::new();
    while let Some(d) = stack.pop() {
        let Ok(real) = std::fs::canonicalize(&d) else { continue };
        if !seen_dirs.insert(real.clone()) {
            continue;
        }
        let Ok(rd) = std::fs::read_dir(&real) else { continue };
        for e in rd.flatten() {
            let p = e.path();
            let Ok(md) = std::fs::symlink_metadata(&p) else { continue };
            if md.is_dir() {
                stack.push(p);
            } else if md.is_file() && md.len() >= 64 && md.len() < 64 * 1024 * 1024 {
                files.push(p.to_string_lossy().into_owned());
            }
        }
    }
    files.sort();
    let mut rng = Rng::new(seed);
    rng.shuffle(&mut files);
    // keep only ELF files, up to cap
    let mut out = Vec::new();
    for f in files {
        if out.len() >= cap {
            break;
        }
        let mut hdr = [0u8; 4];
        if let Ok(mut fh) = std::fs::File::open(&f) {
            use std::io::Read;
            if fh.read_exact(&mut hdr).is_ok() && &hdr == b"\x7fELF" {
                out.push(f);
            }
        }
    }
    out
}

fn check_system_file(path: &str) -> Item {
    let mut it = item(fnv(path.as_bytes()), true);
    let Ok(bytes) = std::fs::read(path) else {
        it.nontrivial = false;
        return it;
    };
    let facts = elf::read_facts(&bytes);
    it.counters.push(("system_files", 1));
    match identify(&bytes) {
        Err((msg, loc)) => {
            it.violation = Some((format!("C14 panic at {loc}"), json!({"case": {"kind": "system-file", "path": path}, "panic": msg, "replay_arg": format!("file:{path}")})));
        }
        Ok((id, so)) => {
            if !facts.wellformed {
                it.counters.push(("system_files_not_wellformed_for_oracle", 1));
                return it;
            }
            if let Some((exp, src)) = &facts.build_id {
                it.counters.push(("build_ids_compared", 1));
                if id.as_ref().ok() != Some(exp) {
                    it.violation = Some((
                        format!("C14 build-id differs from independent reader (system file, {src:?})"),
                        json!({"case": {"kind": "system-file", "path": path}, "got": id.as_ref().map(|b| hex(b)).map_err(|e| e.clone()), "expected": hex(exp), "replay_arg": format!("file:{path}")}),
                    ));
                    return it;
                }
            }
            if let Some(exp) = &facts.soname {
                it.counters.push(("sonames_compared", 1));
                if so.as_ref().ok() != Some(exp) {
                    it.violation = Some((
                        format!("C14 soname differs from independent reader (system file{})", if facts.strtab_vaddr_ne_offset { ", strtab vaddr != offset" } else { "" }),
                        json!({"case": {"kind": "system-file", "path": path}, "got": so, "expected": exp, "replay_arg": format!("file:{path}")}),
                    ));
                    return it;
                }
            }
            // reading through the file path gives the same answer as the slice
            if let Ok(BuildId(b)) = BuildId::read_from_file(std::path::Path::new(path)) {
                if Some(&b) != id.as_ref().ok() {
                    it.violation = Some(("C14 read_from_file disagrees with slice reader".into(), json!({"path": path})));
                }
            }
            if fnv(path.as_bytes()) % 97 == 0 {
                it.sample = Some(json!({"kind": "system-file", "path": path, "build_id": facts.build_id.as_ref().map(|x| hex(&x.0)), "soname": facts.soname}));
            }
        }
    }
    it
}

pub fn run(rep: &mut Report, thorough: bool, n: u64, replay: Option<&str>) {
    crate::util::install_quiet_panic_hook();
    rep.rule = "synthetic 32/64-bit ELF images (with/without PT_NOTE build id, section-only note, no note -> XOR fold, with/without SONAME, with/without section table, vaddr==offset and biased) compared with construction AND the independent reader; every (header/phdr/shdr/dyn/note field x boundary value) singly and every truncation on two seeds (exhaustive); random field pairs; random bytes; ELF files installed on this machine vs. the independent reader. distinct = hash of the image descriptor; non-trivial = image large enough to hold an ELF header".into();
    let mut items: Vec<Item> = Vec::new();
    if let Some(r) = replay {
        if let Some(s) = r.strip_prefix("synthetic:") {
            items.push(check_synthetic(s.parse().unwrap_or(0)));
        } else if let Some(s) = r.strip_prefix("mutant:") {
            items.push(check_mutant(s.parse().unwrap_or(0)));
        } else if let Some(s) = r.strip_prefix("random:") {
            items.push(check_random_bytes(s.parse().unwrap_or(0)));
        } else if let Some(p) = r.strip_prefix("file:") {
            items.push(check_system_file(p));
        }
    } else {
        let seed = rep.seed;
        let syn = crate::util::par_map(n / 4, |i| check_synthetic(seed.wrapping_mul(1_000_000_007).wrapping_add(i)));
        items.extend(syn);
        let mutants = crate::util::par_map(n, |i| check_mutant(seed.wrapping_mul(1_000_000_009).wrapping_add(i)));
        items.extend(mutants);
        let rnd = crate::util::par_map(n / 4, |i| check_random_bytes(seed.wrapping_mul(1_000_000_021).wrapping_add(i)));
        items.extend(rnd);
        if !cfg!(miri) {
            for (b64, so) in [(true, false), (false, false), (true, true), (false, true)] {
                items.extend(single_field_sweep(b64, so));
            }
        }
        let files = if cfg!(miri) { Vec::new() } else { collect_system_elfs(if thorough { 100_000 } else { 300 }, seed) };
        let sys = crate::util::par_map(files.len() as u64, |i| check_system_file(&files[i as usize]));
        items.extend(sys);
    }
    for it in items {
        rep.case(it.desc, it.nontrivial);
        for (k, v) in it.counters {
            rep.count(k, v);
        }
        if let Some((sig, det)) = it.violation {
            rep.violation(&sig, det);
        }
        if let Some(s) = it.sample {
            rep.sample(s);
        }
    }
    if replay.is_none() && !cfg!(miri) {
        rep.require("build_ids_compared", 50);
        rep.require("sonames_compared", 20);
        rep.require("mutated_images", 100);
        rep.require("system_files", 20);
    }
}
