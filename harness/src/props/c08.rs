//! C08 — the module list reflects the loaded ELF images.
//! Also carries C14's live clause (reading the same module from target memory and from its file).

use crate::dump::{self, DumpOpts, Outcome, UserMap};
use crate::elf::{self, ElfSpec};
use crate::image::{self, Module};
use crate::report::Report;
use crate::rng::{fnv, Rng};
use crate::scen::{self, FileTruth};
use crate::spec::*;
use crate::target::{MapLine, Target};
use crate::tspec::*;
use serde_json::json;

#[derive(Debug, Clone)]
pub struct Group {
    pub name: String,
    pub start: u64,
    pub end: u64,
    /// end including a directly following inaccessible anonymous reserved gap
    pub end_with_gap: u64,
    pub offset: u64,
    pub exec: bool,
}

pub fn groups_of(lines: &[MapLine]) -> Vec<Group> {
    let mut v: Vec<Group> = Vec::new();
    let mut i = 0;
    while i < lines.len() {
        let l = &lines[i];
        let name = l.name.strip_suffix(" (deleted)").unwrap_or(&l.name).to_string();
        if !name.starts_with('/') {
            i += 1;
            continue;
        }
        let mut g = Group { name: name.clone(), start: l.start, end: l.end, end_with_gap: l.end, offset: l.offset, exec: l.perms.contains('x') };
        let mut j = i + 1;
        while j < lines.len() {
            let n = &lines[j];
            let nname = n.name.strip_suffix(" (deleted)").unwrap_or(&n.name);
            if n.start == g.end && nname == name {
                g.end = n.end;
                g.exec |= n.perms.contains('x');
                j += 1;
            } else if n.start == g.end && n.name.is_empty() && n.perms == "---p" && j + 1 < lines.len() && lines[j + 1].start == n.end && lines[j + 1].name.strip_suffix(" (deleted)").unwrap_or(&lines[j + 1].name) == name {
                // reserved gap between two parts of the same file
                g.end = lines[j + 1].end;
                g.exec |= lines[j + 1].perms.contains('x');
                j += 2;
            } else {
                break;
            }
        }
        g.end_with_gap = g.end;
        if j < lines.len() && lines[j].start == g.end && lines[j].name.is_empty() && lines[j].perms == "---p" && g.exec {
            g.end_with_gap = lines[j].end;
        }
        v.push(g);
        i = j;
    }
    v
}

fn expected_name(path: &str, soname: Option<&str>, offset: u64, exec: bool) -> String {
    match soname {
        None => path.to_string(),
        Some(so) => {
            if exec && offset != 0 {
                format!("{path}/{so}")
            } else {
                match path.rfind('/') {
                    Some(p) => format!("{}/{}", &path[..p], so),
                    None => so.to_string(),
                }
            }
        }
    }
}

fn hex(b: &[u8]) -> String {
    b.iter().map(|x| format!("{x:02x}")).collect()
}

/// removes the /dev/shm directory of one target when the iteration ends
struct ShmDir(String);
impl Drop for ShmDir {
    fn drop(&mut self) {
        let _ = std::fs::remove_dir_all(&self.0);
    }
}

pub fn run(rep: &mut Report, thorough: bool) {
    crate::util::install_quiet_panic_hook();
    rep.rule = "targets mapping 0..12 synthetic ELF images like a loader would (build id in PT_NOTE / only in the section table / absent -> XOR fold / all-zero; with/without SONAME; with/without section table; deleted on disk; mapped from a file under /dev/shm; mapped out of an archive at a non-zero file offset; file names with spaces, UTF-8, .so.N.M tails; the same file twice) plus non-ELF file mappings, and 0..3 caller mappings that contain / partially overlap / are disjoint from target groups with empty or 20-byte identifiers. Oracle: groups from the checker's own /proc/<pid>/maps parse; ids and SONAMEs from the independent ELF reader applied to the image bytes the harness wrote, to the real libraries' files and to the vDSO read from /proc/<pid>/mem. distinct = hash(file specs, user mappings); non-trivial = Ok dump with >= 1 synthetic module judged".into();
    let mut rng = Rng::new(rep.seed.wrapping_mul(808_081));
    let ntargets = if thorough { 4000 } else { 60 };
    for ti in 0..ntargets {
        let mut b = Builder::new();
        b.spec.dir = crate::target::new_dir("c08");
        let dir = b.spec.dir.clone();
        let mut files: Vec<FileTruth> = Vec::new();
        // some images are mapped from files under /dev (tmpfs at /dev/shm): such a file must never
        // be opened by the writer, but the image in memory is a module like any other
        let shm_dir = ShmDir(format!("/dev/shm/vh-c08-{}-{ti}", std::process::id()));
        let nfiles = if ti == 0 { 0 } else { rng.range(1, if thorough { 12 } else { 6 }) as usize };
        for k in 0..nfiles {
            // (both ELF classes: a 64-bit process can map 32-bit images - emulators, tools that
            // inspect foreign objects)
            let mut spec = ElfSpec::random(&mut rng);
            // an image of a big-endian architecture (what a cross linker, an emulator or a binary
            // inspector maps): its identity is read with the byte order its header declares.
            // (derived from bytes already drawn, so that the random stream of older seeds is unchanged)
            spec.big_endian = spec.text.first().map(|x| x % 6 == 0).unwrap_or(false);
            if spec.big_endian {
                rep.count("big_endian_images", 1);
            }
            // an image linked at a non-zero base (classic non-PIE executable, prelinked library):
            // p_vaddr != p_offset for every segment
            if rng.chance(1, 4) {
                spec.vaddr_bias = *rng.pick(&[0x40_0000u64, 0x1000, 0x10_0000_0000]);
            }
            let name = match rng.below(6) {
                0 => format!("lib syn {k}.so"),
                1 => format!("libsyn{k}.so.{}.{}.{}", rng.below(9), rng.below(20), rng.below(5)),
                2 => format!("libsyn\u{e9}\u{4e16}{k}.so"),
                3 => format!("libsyn{k}.so.3.34.2rc5"),
                _ => format!("libsyn{k}.so"),
            };
            // file name and SONAME related the way real libraries are: libX.so.N.M.P on disk with
            // SONAME libX.so.N (the name extends the SONAME), the two equal, or the SONAME longer
            let mut name = name;
            if spec.soname.is_some() {
                // (unique per file, so that two files of one target never share a path)
                let so = format!("libsyn{k}n{}.so.{}", rng.below(1000), rng.below(9));
                spec.soname = Some(so.clone());
                match rng.below(6) {
                    0 | 1 => name = format!("{so}.{}.{}", rng.below(30), rng.below(9)),
                    2 => name = so,
                    3 => spec.soname = Some(format!("{name}.{}", rng.below(9))),
                    _ => {}
                }
            }
            let pad = if rng.chance(1, 5) { PAGE * rng.range(1, 3) } else { 0 };
            let delete = rng.chance(1, 5);
            let under_dev = rng.chance(1, 5) && std::fs::create_dir_all(&shm_dir.0).is_ok();
            scen::add_elf_file_ex(&mut b, &mut rng, if under_dev { &shm_dir.0 } else { &dir }, &name, spec, delete, pad, &mut files);
            if under_dev {
                rep.count("images_mapped_from_dev_shm", 1);
            }
            // a deleted image whose ELF header page has been made inaccessible by the target: the
            // vectored read cannot see it, the other two read strategies can (they force through
            // page protections), and there is no file left to fall back to
            if (delete || under_dev) && pad == 0 && rng.chance(1, 2) {
                let nreg = b.spec.regions.len();
                b.spec.regions[nreg - 3].prot = 0;
                rep.count("images_with_inaccessible_header_page", 1);
            }
            if rng.chance(1, 6) {
                // the same file a second time, elsewhere
                let f = files.last().unwrap().clone();
                if !f.deleted {
                    let built = elf::build(&f.spec);
                    let total: u64 = built.loads.iter().map(|l| l.1 / PAGE).sum();
                    let base = b.alloc(total, 9);
                    let mut at = base;
                    for (off, len, prot) in &built.loads {
                        b.add_region(Region { addr: at, len: *len, prot: *prot, kind: RegionKind::File { path: f.path.clone(), offset: *off + f.pad }, fill: Fill::Keep, pokes: Vec::new(), unlink_after: false });
                        at += len;
                    }
                    files.push(FileTruth { base, size: at - base, ..f });
                }
            }
        }
        // a non-ELF file mapping
        let junk = format!("{dir}/not an elf.bin");
        std::fs::write(&junk, vec![0x41u8; 3 * 4096]).unwrap();
        let ja = b.alloc(3, 3);
        b.add_region(Region { addr: ja, len: 3 * PAGE, prot: 5, kind: RegionKind::File { path: junk.clone(), offset: 0 }, fill: Fill::Keep, pokes: Vec::new(), unlink_after: false });
        b.sentinel(&mut rng, Mode::Pause, &StackShape::default(), None, None);
        let t = match Target::spawn(b.spec.clone(), &b.opts) {
            Ok(t) => t,
            Err(e) => {
                rep.inconclusive(format!("target did not start: {e}"));
                continue;
            }
        };
        let lines = t.maps();
        let groups = groups_of(&lines);
        // user mappings
        let mut o = DumpOpts::new(t.pid, t.pid);
        let nuser = rng.below(4);
        for u in 0..nuser {
            let (start, size) = if !files.is_empty() && rng.chance(2, 3) {
                let f = rng.pick(&files);
                match rng.below(4) {
                    0 => (f.base, f.size),
                    1 => (f.base - PAGE, f.size + 2 * PAGE),
                    2 => (f.base + PAGE, f.size),
                    _ => (f.base, f.size - PAGE),
                }
            } else {
                (0x2900_0000_0000 + u * 0x100_0000, *rng.pick(&[4096u64, 0x5000]))
            };
            o.user_mappings.push(UserMap { start, size, offset: 0, name: format!("/user/provided/lib {u}.so"), id: if rng.chance(1, 3) { Vec::new() } else { rng.bytes(20) } });
        }
        // sometimes: two caller mappings start inside the same module, a partial one first and
        // a wholly containing one later (or the other way round)
        if !files.is_empty() && rng.chance(1, 3) {
            let f = rng.pick(&files).clone();
            let part = UserMap { start: f.base, size: PAGE, offset: 0, name: "/user/provided/part.so".into(), id: rng.bytes(20) };
            let whole = UserMap { start: f.base, size: f.size, offset: 0, name: "/user/provided/whole.so".into(), id: rng.bytes(20) };
            if rng.chance(1, 2) {
                o.user_mappings.push(part);
                o.user_mappings.push(whole);
            } else {
                o.user_mappings.push(whole);
                o.user_mappings.push(part);
            }
        }
        t.settle();
        // the same configured writer is asked twice: the caller's mappings are configuration, so
        // the second module list must be the first one again
        let (out, second) = {
            let _g = dump::DUMP_LOCK.lock().unwrap_or_else(|e| e.into_inner());
            let (mut w, _guard) = dump::configure(&o);
            let first = dump::dump_with(&mut w, &mut crate::dest::Dest::plain());
            t.settle();
            let second = dump::dump_with(&mut w, &mut crate::dest::Dest::plain());
            (first, second)
        };
        if let (Outcome::Ok(a), Outcome::Ok(b2)) = (&out, &second) {
            let key = |img: &[u8]| -> Vec<(u64, u32, Option<String>, Vec<u8>)> { image::decode(img).modules.unwrap_or_default().iter().map(|m| (m.base, m.size, m.name.clone(), m.cv.clone())).collect() };
            rep.count("second_dump_module_lists_compared", 1);
            if key(a) != key(b2) {
                rep.violation("C08 the module list of a second dump from the same writer differs from the first", json!({"first": key(a).iter().map(|m| (m.2.clone(), format!("{:#x}+{:#x}", m.0, m.1))).collect::<Vec<_>>(), "second": key(b2).iter().map(|m| (m.2.clone(), format!("{:#x}+{:#x}", m.0, m.1))).collect::<Vec<_>>(), "user_mappings": o.user_mappings.len()}));
            }
        }
        let case = json!({"files": files.iter().map(|f| json!({"path": f.path, "deleted": f.deleted, "pad": f.pad, "vaddr_bias": f.spec.vaddr_bias, "phdr_note": f.spec.phdr_note.is_some(), "section_note": f.spec.section_note.is_some(), "soname": f.spec.soname, "sections": f.spec.section_table})).collect::<Vec<_>>(), "user_mappings": o.user_mappings.iter().map(|u| format!("{:#x}+{:#x}", u.start, u.size)).collect::<Vec<_>>()});
        match out {
            Outcome::Ok(img) => {
                let im = image::decode(&img);
                let modules: Vec<Module> = im.modules.clone().unwrap_or_default();
                let nuser = o.user_mappings.len();
                let (target_mods, user_mods) = modules.split_at(modules.len().saturating_sub(nuser));
                let contained = |g: &Group| o.user_mappings.iter().any(|u| g.start >= u.start && g.end_with_gap.min(g.end) <= u.start + u.size);
                let mut judged = 0;
                // ---- every qualifying group listed exactly once, correctly
                for g in &groups {
                    // what does the independent reader say about this file?
                    let ft = files.iter().find(|f| f.path == g.name && f.base == g.start);
                    let (facts, pad, synthetic) = match ft {
                        Some(f) => (elf::read_facts(&f.image), f.pad, true),
                        None => match std::fs::read(&g.name) {
                            Ok(bytes) => (elf::read_facts(&bytes), 0, false),
                            Err(_) => continue,
                        },
                    };
                    let hits: Vec<&Module> = target_mods.iter().filter(|m| m.base == g.start).collect();
                    if !facts.wellformed || g.name == junk {
                        if !hits.is_empty() && g.name == junk {
                            rep.violation("C08 non-ELF file mapping listed as a module", json!({"case": case, "group": format!("{g:?}")}));
                        }
                        continue;
                    }
                    let id = facts.build_id.as_ref().map(|x| x.0.clone());
                    let nonzero = id.as_ref().map(|i| !i.is_empty() && i.iter().any(|b| *b != 0)).unwrap_or(false);
                    // ids only reachable through the section table need the file on disk
                    let id_src = facts.build_id.as_ref().map(|x| x.1.clone());
                    let deleted = ft.map(|f| f.deleted).unwrap_or(false);
                    let needs_file = id_src != Some(elf::IdSource::PhdrNote);
                    if (deleted || pad > 0 || g.name.starts_with("/dev/")) && needs_file {
                        // the id is only reachable through the section table, which is not in
                        // memory; the file is gone / the file as a whole is an archive, not an ELF
                        rep.count("groups_not_judged(id only via sections and file unusable)", 1);
                        continue;
                    }
                    if g.end - g.start < 4096 || !(g.offset == 0 || g.exec) {
                        continue;
                    }
                    if contained(g) {
                        rep.count("suppressed_groups_checked", 1);
                        if !hits.is_empty() {
                            rep.violation("C08 target mapping wholly contained in a caller mapping is still listed", json!({"case": case, "group": format!("{g:?}")}));
                        }
                        continue;
                    }
                    judged += synthetic as u32;
                    rep.count("groups_judged", 1);
                    if !nonzero {
                        rep.count("zero_or_absent_id_groups_checked", 1);
                        if !hits.is_empty() {
                            rep.violation("C08 group without a non-zero build id listed as a module", json!({"case": case, "group": format!("{g:?}"), "id": id.as_ref().map(|i| hex(i))}));
                        }
                        continue;
                    }
                    if hits.len() != 1 {
                        rep.violation(
                            &format!("C08 file-backed group {} in the module list{}", if hits.is_empty() { "missing" } else { "duplicated" }, if synthetic { "" } else { " (system library)" }),
                            json!({"case": case, "group": format!("{g:?}"), "occurrences": hits.len(), "id_source": format!("{id_src:?}"), "modules": target_mods.iter().map(|m| (m.name.clone(), format!("{:#x}+{:#x}", m.base, m.size))).collect::<Vec<_>>()}),
                        );
                        continue;
                    }
                    let m = hits[0];
                    let size_ok = m.size as u64 == g.end - g.start || m.size as u64 == g.end_with_gap - g.start;
                    if !size_ok {
                        rep.violation("C08 module size is not the merged extent of the file's mappings", json!({"case": case, "group": format!("{g:?}"), "module_size": format!("{:#x}", m.size)}));
                    }
                    let mut cv = b"LEpB".to_vec();
                    cv.extend_from_slice(id.as_ref().unwrap());
                    if m.cv != cv {
                        rep.violation(
                            &format!("C08 module debug record does not hold the file's build id ({id_src:?})"),
                            json!({"case": case, "group": format!("{g:?}"), "record": hex(&m.cv), "expected_id": hex(id.as_ref().unwrap())}),
                        );
                    }
                    let exp = expected_name(&g.name, facts.soname.as_deref(), g.offset, g.exec);
                    if m.name.as_deref() != Some(exp.as_str()) {
                        rep.violation(
                            &format!("C08 module name wrong ({})", if facts.soname.is_none() { "no SONAME" } else if g.exec && g.offset != 0 { "SONAME appended case" } else { "SONAME replaces last component" }),
                            json!({"case": case, "group": format!("{g:?}"), "name": m.name, "expected": exp}),
                        );
                    }
                    rep.count("modules_compared", 1);
                }
                // ---- vDSO
                if let Some(vl) = lines.iter().find(|l| l.name == "[vdso]") {
                    if let Ok(bytes) = t.read_mem(vl.start, (vl.end - vl.start) as usize) {
                        let facts = elf::read_facts(&bytes);
                        if let (Some((id, _)), false) = (&facts.build_id, o.user_mappings.iter().any(|u| vl.start >= u.start && vl.end <= u.start + u.size)) {
                            rep.count("vdso_checked", 1);
                            let hits: Vec<&Module> = target_mods.iter().filter(|m| m.base == vl.start).collect();
                            let mut cv = b"LEpB".to_vec();
                            cv.extend_from_slice(id);
                            if hits.len() != 1 || hits[0].cv != cv || hits[0].size as u64 != vl.end - vl.start {
                                rep.violation("C08 vDSO module missing or wrong", json!({"case": case, "hits": hits.len()}));
                            } else if let Some(so) = &facts.soname {
                                if hits[0].name.as_deref() != Some(so.as_str()) && hits[0].name.as_deref() != Some("linux-gate.so") {
                                    rep.violation("C08 vDSO module name wrong", json!({"name": hits[0].name, "soname": so}));
                                }
                            }
                        }
                    }
                }
                // ---- reverse direction: every listed target module is a group or the vDSO
                for m in target_mods {
                    let is_group = groups.iter().any(|g| g.start == m.base);
                    let is_vdso = lines.iter().any(|l| l.name == "[vdso]" && l.start == m.base);
                    if !is_group && !is_vdso {
                        rep.violation("C08 listed module is not a file-backed group of the target", json!({"case": case, "module": (m.name.clone(), format!("{:#x}+{:#x}", m.base, m.size))}));
                    }
                }
                // ---- entry point first, no overlaps
                let entry = t.manifest.at_entry;
                if let Some(first) = target_mods.first() {
                    let exe_suppressed = groups.iter().any(|g| g.start <= entry && entry < g.end && contained(g));
                    if !exe_suppressed && !(first.base <= entry && entry < first.base + first.size as u64) {
                        rep.violation("C08 the module containing the program entry point is not first", json!({"case": case, "first": (first.name.clone(), format!("{:#x}+{:#x}", first.base, first.size)), "entry": format!("{entry:#x}")}));
                    }
                    rep.count("entry_point_order_checked", 1);
                }
                let mut sorted: Vec<&Module> = target_mods.iter().collect();
                sorted.sort_by_key(|m| m.base);
                for w in sorted.windows(2) {
                    if w[0].base + w[0].size as u64 > w[1].base {
                        rep.violation("C08 modules overlap", json!({"case": case, "a": (w[0].name.clone(), format!("{:#x}+{:#x}", w[0].base, w[0].size)), "b": (w[1].name.clone(), format!("{:#x}+{:#x}", w[1].base, w[1].size))}));
                    }
                }
                // ---- caller mappings verbatim
                if user_mods.len() != nuser {
                    rep.violation("C08 caller-supplied mappings missing", json!({"case": case}));
                } else {
                    for (u, m) in o.user_mappings.iter().zip(user_mods.iter()) {
                        rep.count("caller_mappings_checked", 1);
                        let mut cv = Vec::new();
                        if !u.id.is_empty() {
                            cv = b"LEpB".to_vec();
                            cv.extend_from_slice(&u.id);
                        }
                        if m.base != u.start || m.size as u64 != u.size || m.name.as_deref() != Some(u.name.as_str()) || m.cv != cv {
                            rep.violation("C08 caller-supplied mapping not listed verbatim", json!({"case": case, "supplied": format!("{:#x}+{:#x} {} id={}", u.start, u.size, u.name, hex(&u.id)), "listed": format!("{:#x}+{:#x} {:?} cv={}", m.base, m.size, m.name, hex(&m.cv))}));
                        }
                    }
                }
                // ---- C14 live clause: memory vs file
                live_memory_vs_file(rep, &t, &groups, &files, &case);
                rep.case(fnv(case.to_string().as_bytes()), judged > 0 || nfiles == 0);
                if rep.samples.len() < 3 && nfiles > 0 {
                    rep.sample(json!({"case": case, "modules": modules.iter().map(|m| (m.name.clone(), format!("{:#x}+{:#x}", m.base, m.size), hex(&m.cv))).collect::<Vec<_>>()}));
                }
            }
            Outcome::Err(e) => {
                rep.case(fnv(case.to_string().as_bytes()), true);
                rep.violation("C08 dump failed", json!({"case": case, "error": e.chars().take(300).collect::<String>()}));
            }
            Outcome::Panic { message, location } => {
                rep.violation(&format!("C08 panic at {location}"), json!({"case": case, "panic": message}));
            }
        }
    }
    rep.require("modules_compared", 10);
    rep.require("images_mapped_from_dev_shm", 3);
    rep.require("caller_mappings_checked", 1);
    rep.require("entry_point_order_checked", 3);
}

/// Reading the same module from target memory and from its file gives the same answers.
fn live_memory_vs_file(rep: &mut Report, t: &Target, groups: &[Group], files: &[FileTruth], case: &serde_json::Value) {
    use minidump_writer::module_reader::{BuildId, ProcessMemory, ProcessReader, ReadFromModule, SoName};
    for g in groups {
        let ft = files.iter().find(|f| f.path == g.name && f.base == g.start);
        let bytes: Vec<u8> = match ft {
            Some(f) => f.image.clone(),
            None => match std::fs::read(&g.name) {
                Ok(b) => b,
                Err(_) => continue,
            },
        };
        if bytes.len() < 64 || &bytes[..4] != b"\x7fELF" || g.offset != ft.map(|f| f.pad).unwrap_or(0) {
            continue;
        }
        let mem_id = BuildId::read_from_module(ProcessMemory::Process(ProcessReader::new(t.pid, g.start as usize))).map(|b| b.0);
        let file_id = BuildId::read_from_module(ProcessMemory::Slice(&bytes)).map(|b| b.0);
        let mem_so = SoName::read_from_module(ProcessMemory::Process(ProcessReader::new(t.pid, g.start as usize))).map(|s| s.0);
        let file_so = SoName::read_from_module(ProcessMemory::Slice(&bytes)).map(|s| s.0);
        rep.count("memory_vs_file_modules", 1);
        // a value found both ways must agree (the memory view cannot see the section table)
        if let (Ok(a), Ok(b)) = (&mem_id, &file_id) {
            if a != b {
                rep.violation("C14 live: build id read from memory differs from the file", json!({"case": case, "module": g.name, "memory": hex(a), "file": hex(b)}));
            }
        }
        if let (Ok(a), Ok(b)) = (&mem_so, &file_so) {
            if a != b {
                rep.violation("C14 live: SONAME read from memory differs from the file", json!({"case": case, "module": g.name, "memory": a, "file": b}));
            }
        }
        // a PT_NOTE id / PT_DYNAMIC soname is visible both ways
        let facts = elf::read_facts(&bytes);
        if let Some((id, elf::IdSource::PhdrNote)) = &facts.build_id {
            if mem_id.as_ref().ok() != Some(id) && !facts.note_vaddr_ne_offset {
                rep.violation("C14 live: build id note not found through target memory", json!({"case": case, "module": g.name, "memory": mem_id.as_ref().map(|b| hex(b)).map_err(|e| e.to_string())}));
            }
        }
        // the SONAME of a synthetic image is reachable through PT_DYNAMIC, which is mapped: the
        // memory view must produce it - also when the loader has relocated DT_STRTAB in place
        if let (Some(f), Some(so)) = (ft, &facts.soname) {
            if f.pad == 0 {
                rep.count("sonames_required_through_memory", 1);
                if mem_so.as_ref().ok() != Some(so) {
                    rep.violation("C14 live: SONAME not found through target memory", json!({"case": case, "module": g.name, "vaddr_bias": f.spec.vaddr_bias, "expected": so, "memory": mem_so.as_ref().map_err(|e| e.to_string())}));
                }
            }
        }
    }
}


/// C14's live clause on its own: targets that map synthetic ELF images; every module is read
/// from target memory and from its image bytes and the answers are compared.
pub fn run_c14_live(rep: &mut Report, thorough: bool) {
    let mut rng = Rng::new(rep.seed.wrapping_mul(141_414));
    let ntargets = if thorough { 700 } else { 12 };
    for _ in 0..ntargets {
        let mut b = Builder::new();
        b.spec.dir = crate::target::new_dir("c14");
        let dir = b.spec.dir.clone();
        let mut files: Vec<FileTruth> = Vec::new();
        for k in 0..rng.range(2, 8) {
            let mut spec = ElfSpec::random(&mut rng);
            spec.bits64 = true;
            // images linked at a non-zero base and loaded somewhere else
            if rng.chance(1, 3) {
                spec.vaddr_bias = *rng.pick(&[0x40_0000u64, 0x2000_0000, 0x1000]);
            }
            let pad = if rng.chance(1, 6) { PAGE } else { 0 };
            scen::add_elf_file_ex(&mut b, &mut rng, &dir, &format!("libc14-{k}.so"), spec, false, pad, &mut files);
        }
        let t = match Target::spawn(b.spec.clone(), &b.opts) {
            Ok(t) => t,
            Err(e) => {
                rep.inconclusive(format!("target did not start: {e}"));
                continue;
            }
        };
        // what the dynamic loader does to a loaded library: DT_STRTAB (an address) is relocated IN
        // PLACE to the run-time address of the string table. Half of the images get that treatment
        // (written through /proc/<pid>/mem, copy-on-write on the private mapping).
        {
            use std::os::unix::fs::FileExt;
            if let Ok(memf) = std::fs::OpenOptions::new().read(true).write(true).open(format!("/proc/{}/mem", t.pid)) {
                for f in files.iter().filter(|f| f.pad == 0) {
                    if !rng.chance(1, 2) {
                        continue;
                    }
                    let built = elf::build(&f.spec);
                    for i in 0..8 {
                        let (Some(tag), Some(val)) = (built.fields.iter().find(|x| x.name == format!("dyn{i}.d_tag")), built.fields.iter().find(|x| x.name == format!("dyn{i}.d_val"))) else { break };
                        let tagv = u64::from_le_bytes(built.bytes[tag.off..tag.off + 8].try_into().unwrap());
                        if tagv == 5 {
                            let link_val = u64::from_le_bytes(built.bytes[val.off..val.off + 8].try_into().unwrap());
                            let runtime = f.base + (link_val - f.spec.vaddr_bias);
                            if memf.write_all_at(&runtime.to_le_bytes(), f.base + val.off as u64).is_ok() {
                                rep.count("images_with_dt_strtab_relocated_in_place", 1);
                            }
                        }
                    }
                }
            }
        }
        let groups = groups_of(&t.maps());
        let case = json!({"files": files.iter().map(|f| json!({"path": f.path, "pad": f.pad, "phdr_note": f.spec.phdr_note.is_some(), "empty_first_note": f.spec.empty_first_note, "soname": f.spec.soname})).collect::<Vec<_>>()});
        live_memory_vs_file(rep, &t, &groups, &files, &case);
        rep.case(fnv(case.to_string().as_bytes()), true);
    }
    rep.require("memory_vs_file_modules", 20);
}
