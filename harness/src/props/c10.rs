//! C10 — every prefix of the output is a consistent truncated minidump.
//! Also hosts the whole-dump level of C09 (`run_c09_live`).

use crate::dest::{Dest, Fault, Mode};
use crate::dump::{self, DumpOpts, Outcome};
use crate::image;
use crate::report::Report;
use crate::rng::{fnv, Rng};
use crate::scen::{self, OptKnobs, TargetCfg};
use serde_json::json;

/// Judge one destination state (content from the dump's start position) as a truncated minidump.
pub fn judge_prefix(content: &[u8]) -> Vec<(String, String)> {
    let im = image::decode(content);
    im.errors.clone()
}

fn run_one(o: &DumpOpts, start: u64, fault: Option<(usize, Fault)>) -> (Outcome, Dest) {
    let mut d = Dest::new(Vec::new(), start, Mode::Plain, 1);
    d.record_snapshots();
    if let Some((at, f)) = fault {
        d.set_fault(at, f);
    }
    let view = d.clone();
    let _g = dump::DUMP_LOCK.lock().unwrap_or_else(|e| e.into_inner());
    let out = dump::dump_into(o, &mut d);
    (out, view)
}

pub fn run(rep: &mut Report, thorough: bool) {
    crate::util::install_quiet_panic_hook();
    rep.rule = "for each dump (target shapes x option combinations incl. crash context, app memory, sanitize, limit, user mappings, failing dso-debug): EVERY destination state after a completed write or seek call (exhaustive per dump) is decoded as a truncated minidump by the strict decoder; then an I/O error is injected at EVERY call index of the fault-free run (exhaustive per dump) and the final destination state gets the same check. distinct = hash(option set, target shape, call index); non-trivial = the state holds at least the header".into();
    let mut rng = Rng::new(rep.seed.wrapping_mul(101_011));
    let ntargets = if thorough { 20 } else { 3 };
    let per_target = if thorough { 20 } else { 8 };
    for ti in 0..ntargets {
        let cfg = TargetCfg { sentinels: 1 + ti % 4, max_spinners: 0, heartbeats: 0, sleepers: ti % 2, exiters: 0, names: true, regions: 3, elf_files: ti % 2, fds: 3, stack_pages_max: 2, null_sp_threads: 0, big_region_pages: 600 };
        let sc = match scen::build_target(&mut rng, &cfg) {
            Ok(s) => s,
            Err(e) => {
                rep.inconclusive(format!("target did not start: {e}"));
                continue;
            }
        };
        for k in 0..per_target {
            let bits = if k == 0 { 0 } else { rng.below(128) as u32 };
            let knobs = OptKnobs::from_bits(bits, &mut rng);
            let mut o = scen::random_opts(&mut rng, &sc, &knobs);
            // one dump per target carries more than 1 MiB in a single flush (application memory)
            if k == 1 {
                if let Some(&(a, l)) = sc.pattern_regions.iter().find(|(_, l)| *l >= (2 << 20)) {
                    o.app_memory.push((a + 4096, l - 8192));
                    o.app_memory.push((a, 1 << 20));
                }
            }
            if k % 5 == 4 {
                o.direct_auxv = Some([3, 0x1000, 0, 0]); // dso-debug fails softly
            }
            let start = if k % 3 == 2 { 4096 } else { 0 };
            sc.target.settle();
            let (out, view) = run_one(&o, start, None);
            let case = json!({"opts": o.describe(), "threads": sc.target.manifest.tids.len() + 1, "start_offset": start});
            let ncalls = view.calls();
            match out {
                Outcome::Ok(_) => {}
                Outcome::Err(e) => {
                    rep.count("fault_free_dump_err(no verdict)", 1);
                    if rep.counter("fault_free_dump_err(no verdict)") <= 3 {
                        rep.note(&format!("fault-free dump returned Err: {}", e.chars().take(120).collect::<String>()));
                    }
                    continue;
                }
                Outcome::Panic { message, location } => {
                    rep.violation(&format!("C10 panic at {location}"), json!({"case": case, "panic": message}));
                    continue;
                }
            }
            // ---- every boundary between two destination calls
            let log = view.log();
            let mut writes_done = 0;
            view.for_each_snapshot(|j, s| {
                if matches!(log.get(j), Some(crate::dest::Call::Write { .. })) {
                    writes_done += 1;
                }
                if writes_done == 0 {
                    return true;
                }
                let content = if s.len() as u64 >= start { &s[start as usize..] } else { &s[0..0] };
                let errs = judge_prefix(content);
                rep.case(fnv(format!("{}/{j}", o.describe()).as_bytes()), content.len() >= 32);
                rep.count("prefix_states_checked", 1);
                if !errs.is_empty() {
                    let kinds: Vec<String> = {
                        let mut k: Vec<String> = errs.iter().map(|e| e.0.clone()).collect();
                        k.sort();
                        k.dedup();
                        k
                    };
                    rep.violation(
                        &format!("C10 crash point leaves an inconsistent prefix ({})", kinds.join(",")),
                        json!({"case": case, "after_call": j, "call": format!("{:?}", log.get(j)), "prefix_len": content.len(), "messages": errs.iter().map(|e| &e.1).take(3).collect::<Vec<_>>()}),
                    );
                    return false; // one witness per dump is enough
                }
                true
            });
            // ---- a destination that accepts only part of each write: every boundary between its
            // write calls, judged on the clause that does not depend on how the first flush is
            // split: once header and directory are there, no published entry may refer to bytes
            // that have not arrived
            if k % 2 == 0 {
                let big: u64 = o.app_memory.iter().map(|(_, l)| *l).sum();
                let chunk = if big > 300_000 { 400_000 } else { *rng.pick(&[1000usize, 4096, 60_000]) };
                let mut d = Dest::new(Vec::new(), start, Mode::ShortLarge(chunk), rng.next());
                d.record_snapshots();
                let v3 = d.clone();
                sc.target.settle();
                let out3 = {
                    let _g = dump::DUMP_LOCK.lock().unwrap_or_else(|e| e.into_inner());
                    dump::dump_into(&o, &mut d)
                };
                if matches!(out3, Outcome::Ok(_)) {
                    v3.for_each_snapshot(|j, s| {
                        let content = if s.len() as u64 >= start { &s[start as usize..] } else { &s[0..0] };
                        if content.len() < 32 + 18 * 12 {
                            return true;
                        }
                        let errs = judge_prefix(content);
                        rep.count("short_write_states_checked", 1);
                        if !errs.is_empty() {
                            let mut kinds: Vec<String> = errs.iter().map(|e| e.0.clone()).collect();
                            kinds.sort();
                            kinds.dedup();
                            rep.violation(
                                &format!("C10 crash point leaves an inconsistent prefix on a short-writing destination ({})", kinds.join(",")),
                                json!({"case": case, "after_call": j, "accepts_at_most": chunk, "prefix_len": content.len(), "messages": errs.iter().map(|e| &e.1).take(3).collect::<Vec<_>>()}),
                            );
                            return false;
                        }
                        true
                    });
                    // and the finished destination holds the whole image
                    if let Outcome::Ok(img) = &out3 {
                        let data = v3.data();
                        if data.get(start as usize..start as usize + img.len()) != Some(&img[..]) {
                            rep.violation("C10 finished dump on a short-writing destination is incomplete", json!({"case": case, "accepts_at_most": chunk, "image_len": img.len(), "destination_len": data.len()}));
                        }
                    }
                }
            }
            // ---- an I/O error at every call
            let step = if thorough || ncalls < 90 { 1 } else { 2 };
            let mut j = 0;
            while j < ncalls {
                let fault = if j % 2 == 0 { Fault::Error } else { Fault::PartialThenError };
                sc.target.settle();
                let (out, v2) = run_one(&o, start, Some((j, fault)));
                rep.count("injected_io_errors", 1);
                match out {
                    Outcome::Panic { message, location } => {
                        rep.violation(&format!("C10 panic at {location}"), json!({"case": case, "fault_at_call": j, "panic": message}));
                    }
                    Outcome::Ok(_) if v2.failed() => {
                        rep.violation("C10 destination error swallowed: dump returned Ok", json!({"case": case, "fault_at_call": j}));
                    }
                    _ => {}
                }
                let data = v2.data();
                let any_write = v2.log().iter().any(|c| matches!(c, crate::dest::Call::Write { .. }));
                if any_write {
                    let content = if data.len() as u64 >= start { &data[start as usize..] } else { &data[0..0] };
                    let errs = judge_prefix(content);
                    rep.case(fnv(format!("{}/f{j}", o.describe()).as_bytes()), content.len() >= 32);
                    rep.count("aborted_states_checked", 1);
                    if !errs.is_empty() {
                        let mut kinds: Vec<String> = errs.iter().map(|e| e.0.clone()).collect();
                        kinds.sort();
                        kinds.dedup();
                        rep.violation(
                            &format!("C10 I/O error leaves an inconsistent destination ({})", kinds.join(",")),
                            json!({"case": case, "fault_at_call": j, "fault": format!("{fault:?}"), "len": content.len(), "messages": errs.iter().map(|e| &e.1).take(3).collect::<Vec<_>>()}),
                        );
                    }
                }
                j += step;
            }
            if rep.samples.len() < 4 {
                rep.sample(json!({"case": case, "destination_calls": ncalls, "first_calls": log.iter().take(8).map(|c| format!("{c:?}")).collect::<Vec<_>>()}));
            }
        }
    }
    rep.exhaustive = Some(true);
    rep.note("exhaustive over the call boundaries / fault indices of each explored dump; the set of dumps (targets x options) is sampled");
    rep.require("prefix_states_checked", 200);
    rep.require("injected_io_errors", 100);
}

/// C09 whole-dump level: real dumps into hostile destinations; Ok(image) must equal
/// destination[s..s+len]; nothing before s or beyond the image end may change.
pub fn run_c09_live(rep: &mut Report, thorough: bool) {
    let mut rng = Rng::new(rep.seed.wrapping_mul(909_091));
    let ntargets = if thorough { 12 } else { 2 };
    let per_target = if thorough { 40 } else { 20 };
    for ti in 0..ntargets {
        // the last target has more threads than a size limit keeps at full length (the writer takes
        // other paths then: shortened stacks, the "limited" bookkeeping)
        let many = ti == ntargets - 1;
        let cfg = TargetCfg { sentinels: if many { 26 } else { 1 + ti % 3 }, max_spinners: 0, heartbeats: 0, sleepers: 0, exiters: 0, names: true, regions: 2, elf_files: 0, fds: 2, stack_pages_max: if many { 3 } else { 2 }, null_sp_threads: 0, big_region_pages: 0 };
        let sc = match scen::build_target(&mut rng, &cfg) {
            Ok(s) => s,
            Err(e) => {
                rep.inconclusive(format!("target did not start: {e}"));
                continue;
            }
        };
        for k in 0..per_target {
            let mut knobs = OptKnobs::from_bits(rng.below(128) as u32, &mut rng);
            if many && k % 2 == 0 {
                knobs.limit = 1 + (k as u8 / 2) % 2; // tiny / around the estimate
                rep.count("live_dumps_many_threads_with_size_limit", 1);
            }
            let o = scen::random_opts(&mut rng, &sc, &knobs);
            let start: u64 = *rng.pick(&[0u64, 1, 7, 4095, 4096, 1_000_000]);
            let init_len = match rng.below(3) {
                0 => 0usize,
                1 => rng.usize_below(start as usize + 1),
                _ => start as usize + 400_000 + rng.usize_below(100),
            };
            let initial = rng.bytes(init_len);
            let mode = match rng.below(3) {
                0 => Mode::Plain,
                1 => Mode::Short(1 + rng.usize_below(5000)),
                _ => Mode::Interrupting(1 + rng.usize_below(5000)),
            };
            let fault = if k % 4 == 3 { Some((rng.usize_below(70), if rng.chance(1, 2) { Fault::Error } else { Fault::PartialThenError })) } else { None };
            // the destination may be positioned far into a huge file: `start` and the pre-existing
            // content are then relative to an origin beyond 4 GiB (positions need more than 32 bits)
            let origin: u64 = *rng.pick(&[0u64, 0, 0, 1 << 32, (1 << 32) + 512, (8u64 << 30) + 4103, (1 << 32) - 100]);
            let mut d = Dest::new_at(origin, initial.clone(), origin + start, mode.clone(), rng.next());
            if let Some((at, f)) = fault {
                d.set_fault(at, f);
            }
            let view = d.clone();
            let out = {
                let _g = dump::DUMP_LOCK.lock().unwrap_or_else(|e| e.into_inner());
                dump::dump_into(&o, &mut d)
            };
            let case = json!({"opts": o.describe(), "origin": origin, "start": start, "preexisting": init_len, "mode": format!("{mode:?}"), "fault": format!("{fault:?}")});
            if origin > 0 {
                rep.count("live_dumps_positioned_beyond_4GiB", (origin + start >= 1 << 32) as u64);
            }
            if view.stores_below_origin() > 0 {
                rep.violation("C09 live bytes far before the starting position were written", json!({"case": case, "stores_below_the_window": view.stores_below_origin()}));
            }
            let data = view.data();
            let s = start as usize;
            rep.count("live_dumps_into_hostile_destinations", 1);
            // bytes before the start position never change
            let n = std::cmp::min(s, initial.len());
            if data.len() < n || data[..n] != initial[..n] {
                rep.violation("C09 live bytes before the starting position changed", json!({"case": case}));
            }
            match out {
                Outcome::Ok(img) => {
                    rep.case(fnv(case.to_string().as_bytes()), true);
                    if view.failed() {
                        rep.violation("C09 live destination error swallowed: dump returned Ok", json!({"case": case}));
                        continue;
                    }
                    if data.get(s..s + img.len()) != Some(&img[..]) {
                        rep.violation("C09 live destination differs from the returned image", json!({"case": case, "image_len": img.len(), "destination_len": data.len()}));
                    }
                    // beyond the image end: untouched
                    let end = s + img.len();
                    let tail_ok = if initial.len() > end { data.len() == initial.len() && data[end..] == initial[end..] } else { data.len() == end };
                    if !tail_ok {
                        rep.violation("C09 live bytes beyond the image end changed", json!({"case": case, "image_end": end, "destination_len": data.len(), "initial_len": initial.len()}));
                    }
                    rep.count("live_images_compared", 1);
                }
                Outcome::Err(_) => {
                    rep.case(fnv(case.to_string().as_bytes()), true);
                    rep.count("live_aborted_dumps", 1);
                    // beyond what could have been written nothing changes: the tail of a long
                    // pre-existing file keeps its length
                    if initial.len() > s + 400_000 && data.len() != initial.len() {
                        rep.violation("C09 live aborted dump changed the destination length", json!({"case": case}));
                    }
                }
                Outcome::Panic { message, location } => {
                    rep.violation(&format!("C09 live panic at {location}"), json!({"case": case, "panic": message}));
                }
            }
            if rep.samples.len() < 5 {
                rep.sample(case);
            }
        }
    }
}
