//! Builders for target specs: address allocation, sentinel threads with generated registers,
//! stacks with chosen shapes, code stubs.

use crate::rng::Rng;
use crate::spec::*;
use crate::target::SpawnOpts;

pub const PAGE: u64 = 4096;

#[derive(Clone, Copy, Debug, PartialEq, Eq)]
pub enum Mode {
    Spin,
    Pause,
    Spinner3,
}

#[derive(Clone, Debug)]
pub struct StackShape {
    pub pages: u64,
    /// byte offset of RSP from the stack base (may be any value; negative = below the stack,
    /// i.e. in the guard gap)
    pub sp_offset: i64,
    /// PROT_NONE guard mapping below the stack (else an unmapped gap)
    pub guard_mapping_pages: u64,
    pub fill_pattern: bool,
    /// (byte offset from stack base, value) 8-byte slots poked into the stack
    pub slots: Vec<(u64, u64)>,
    /// protection of the stack mapping (normally rw = 6)
    pub prot: u8,
    /// > 0: the stack is a private mapping of a FILE, directly followed by this many PROT_NONE pages
    /// of the same file. The writer's mapping list merges the two lines (same name), so the
    /// "mapping" the stack lies in extends over memory that cannot be read.
    pub noaccess_file_tail_pages: u64,
    /// the stack is placed in LOW memory (from 256 MiB upward, below the control mapping and below
    /// the executable image): the first such stack is the lowest mapping of the whole process, the
    /// way MAP_32BIT / fixed-address arenas, coroutine stacks and managed-runtime heaps are
    pub low: bool,
}

impl Default for StackShape {
    fn default() -> Self {
        StackShape { pages: 4, sp_offset: 2 * 4096 + 512, guard_mapping_pages: 0, fill_pattern: true, slots: Vec::new(), prot: 6, noaccess_file_tail_pages: 0, low: false }
    }
}

/// What the checker knows about a sentinel thread (ground truth because it chose it).
#[derive(Clone, Debug)]
pub struct SentinelTruth {
    pub index: usize,
    pub mode: Mode,
    pub regs: RegBlock,
    pub stub_addr: u64,
    pub stub_len: u64,
    pub stack_base: u64,
    pub stack_len: u64,
    pub app_word: u64,
}

pub struct Builder {
    pub spec: Spec,
    pub opts: SpawnOpts,
    next: u64,
    low_next: u64,
    pub stubs_region: Option<usize>,
    stub_next: u64,
    pub sentinels: Vec<SentinelTruth>,
}

impl Default for Builder {
    fn default() -> Self {
        Self::new()
    }
}

impl Builder {
    pub fn new() -> Self {
        Builder {
            spec: Spec::default(),
            opts: SpawnOpts::default(),
            next: REGION_BASE,
            low_next: 0x1000_0000,
            stubs_region: None,
            stub_next: 0,
            sentinels: Vec::new(),
        }
    }

    /// Reserve `pages` pages, leaving `gap_pages` unmapped pages before them.
    pub fn alloc(&mut self, pages: u64, gap_pages: u64) -> u64 {
        self.next += gap_pages * PAGE;
        let a = self.next;
        self.next += pages * PAGE;
        a
    }

    pub fn set_next(&mut self, addr: u64) {
        self.next = addr;
    }
    pub fn cursor(&self) -> u64 {
        self.next
    }

    pub fn add_region(&mut self, r: Region) -> usize {
        self.spec.regions.push(r);
        self.spec.regions.len() - 1
    }

    pub fn anon(&mut self, pages: u64, gap_pages: u64, prot: u8, fill: Fill) -> usize {
        let addr = self.alloc(pages, gap_pages);
        self.add_region(Region { addr, len: pages * PAGE, prot, kind: RegionKind::Anon, fill, pokes: Vec::new(), unlink_after: false })
    }

    fn ensure_stubs(&mut self) -> usize {
        if let Some(i) = self.stubs_region {
            return i;
        }
        let i = self.anon(2, 16, 5, Fill::Zero);
        self.stubs_region = Some(i);
        self.stub_next = self.spec.regions[i].addr;
        i
    }

    /// Place a code stub; `at`: Some(address inside an existing executable region index) or None
    /// for the shared stub region.
    pub fn place_stub(&mut self, code: &[u8], at: Option<(usize, u64)>) -> u64 {
        match at {
            Some((ri, addr)) => {
                self.spec.regions[ri].pokes.push((addr, code.to_vec()));
                addr
            }
            None => {
                let ri = self.ensure_stubs();
                let addr = self.stub_next;
                self.stub_next += 32;
                self.spec.regions[ri].pokes.push((addr, code.to_vec()));
                addr
            }
        }
    }

    pub fn random_regs(rng: &mut Rng) -> RegBlock {
        let mut gpr: Vec<u64> = (0..16).map(|_| rng.next()).collect();
        // keep a few recognisably small / odd values in the mix
        if rng.chance(1, 4) {
            let i = rng.usize_below(16);
            gpr[i] = rng.interesting_u64();
        }
        // arithmetic flags, DF, and the two user-settable flags above bit 15: AC (18) and ID (21).
        // (AC is harmless here: the stubs only make aligned accesses and all signals are blocked.)
        let flags_pool = [0x001u64, 0x004, 0x010, 0x040, 0x080, 0x800, 0x400, 0x4_0000, 0x20_0000];
        let mut rflags = 0x202; // IF + reserved bit 1
        for f in flags_pool {
            if rng.chance(1, 2) {
                rflags |= f;
            }
        }
        let sel = [0x2bu16, 0x33, 0x23, 0x0, 0x2b];
        let mut xmm = Vec::new();
        for _ in 0..16 {
            xmm.push(rng.bytes(16));
        }
        let mut st = Vec::new();
        for _ in 0..8 {
            // normal finite extended-precision numbers: explicit integer bit set
            let mant = rng.next() | (1u64 << 63);
            let exp: u16 = (0x3fff - 40 + rng.below(80) as u16) | if rng.chance(1, 2) { 0x8000 } else { 0 };
            let mut b = mant.to_le_bytes().to_vec();
            b.extend_from_slice(&exp.to_le_bytes());
            st.push(b);
        }
        // MXCSR: keep all exceptions masked (bits 7-12), random rounding / FZ / DAZ, sticky flags clear
        let mxcsr = 0x1f80 | ((rng.below(4) as u32) << 13) | if rng.chance(1, 2) { 0x8000 } else { 0 } | if rng.chance(1, 2) { 0x40 } else { 0 };
        // x87 control word: all exceptions masked, random precision / rounding
        let fcw = 0x003f | 0x0040 | ((*rng.pick(&[0u16, 2, 3])) << 8) | ((rng.below(4) as u16) << 10);
        RegBlock { gpr, rflags, ds: *rng.pick(&sel), es: *rng.pick(&sel), gs: *rng.pick(&[0u16, 0x2b, 0x0]), set_segments: true, mxcsr, fcw, xmm, st }
    }

    /// Add a sentinel thread. Returns its index in spec.threads.
    pub fn sentinel(&mut self, rng: &mut Rng, mode: Mode, shape: &StackShape, name: Option<Vec<u8>>, stub_at: Option<(usize, u64)>) -> usize {
        let index = self.spec.threads.len();
        // stack: [guard mapping?] [stack pages], preceded by an unmapped gap of >= 300 pages so
        // that the 1 MiB guard-search window of one stack never reaches another region
        let mut stack_base = 0;
        if shape.pages > 0 {
            if shape.low {
                std::mem::swap(&mut self.next, &mut self.low_next);
            }
            if shape.guard_mapping_pages > 0 {
                let g = self.alloc(shape.guard_mapping_pages, 300);
                self.add_region(Region { addr: g, len: shape.guard_mapping_pages * PAGE, prot: 0, kind: RegionKind::Anon, fill: Fill::Keep, pokes: Vec::new(), unlink_after: false });
                stack_base = self.alloc(shape.pages, 0);
            } else {
                stack_base = self.alloc(shape.pages, 300);
            }
            let mut pokes = Vec::new();
            for (off, val) in &shape.slots {
                pokes.push((stack_base + off, val.to_le_bytes().to_vec()));
            }
            let kind = if shape.noaccess_file_tail_pages > 0 {
                let path = format!("{}/stack-file-{index}.bin", self.spec.dir);
                let _ = std::fs::write(&path, vec![0u8; ((shape.pages + shape.noaccess_file_tail_pages) * PAGE) as usize]);
                RegionKind::File { path, offset: 0 }
            } else {
                RegionKind::Anon
            };
            self.add_region(Region {
                addr: stack_base,
                len: shape.pages * PAGE,
                prot: shape.prot,
                kind: kind.clone(),
                fill: if shape.fill_pattern { Fill::Pattern } else { Fill::Zero },
                pokes,
                unlink_after: false,
            });
            if let RegionKind::File { path, .. } = kind {
                let tail = self.alloc(shape.noaccess_file_tail_pages, 0);
                self.add_region(Region { addr: tail, len: shape.noaccess_file_tail_pages * PAGE, prot: 0, kind: RegionKind::File { path, offset: shape.pages * PAGE }, fill: Fill::Keep, pokes: Vec::new(), unlink_after: false });
            }
            // keep the page after the stack unmapped
            self.next += PAGE;
            if shape.low {
                std::mem::swap(&mut self.next, &mut self.low_next);
            }
        }
        let code: &[u8] = match mode {
            Mode::Spin => STUB_SPIN,
            Mode::Pause => STUB_PAUSE,
            Mode::Spinner3 => STUB_SPINNER3,
        };
        let stub_addr = self.place_stub(code, stub_at);
        let mut regs = Self::random_regs(rng);
        regs.gpr[RSP] = (stack_base as i64 + shape.sp_offset) as u64;
        regs.gpr[R15] = slot_addr(index) + SLOT_READY;
        regs.gpr[R14] = rng.next() | 0x0100_0000_0000_0001;
        let mut app_word = 0;
        if mode == Mode::Spinner3 {
            // the application word lives in the control mapping (slot heartbeat field)
            app_word = slot_addr(index) + SLOT_HEARTBEAT;
            regs.gpr[R13] = app_word;
            regs.gpr[R12] = rng.below(1 << 40);
            // rsp+8 must be writable and 8-aligned for atomic-looking stores
            regs.gpr[RSP] &= !7;
            if shape.pages > 0 {
                let top = stack_base + shape.pages * PAGE - 16;
                if regs.gpr[RSP] > top {
                    regs.gpr[RSP] = top;
                }
                if regs.gpr[RSP] < stack_base {
                    regs.gpr[RSP] = stack_base;
                }
            }
            regs.rflags = 0x202;
        }
        if mode == Mode::Pause {
            regs.gpr[RAX] = 34;
        }
        self.spec.threads.push(ThreadSpec { kind: ThreadKind::Sentinel { regs: regs.clone(), entry: stub_addr }, name });
        if mode == Mode::Pause {
            self.opts.pause_threads.push(index);
        }
        self.sentinels.push(SentinelTruth { index, mode, regs, stub_addr, stub_len: code.len() as u64, stack_base, stack_len: shape.pages * PAGE, app_word });
        index
    }

    pub fn thread(&mut self, kind: ThreadKind, name: Option<Vec<u8>>) -> usize {
        self.spec.threads.push(ThreadSpec { kind, name });
        self.spec.threads.len() - 1
    }

    pub fn truth(&self, index: usize) -> Option<&SentinelTruth> {
        self.sentinels.iter().find(|s| s.index == index)
    }
}
