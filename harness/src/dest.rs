//! Hostile / recording `Write + Seek` destinations used by C09, C10, C03.

use crate::rng::Rng;
use std::io::{Error, ErrorKind, Seek, SeekFrom, Write};

#[derive(Clone, Debug, PartialEq, Eq)]
pub enum Mode {
    /// every write accepts everything
    Plain,
    /// every write accepts 1..=k bytes
    Short(usize),
    /// like Short, and returns ErrorKind::Interrupted now and then (write_all must retry)
    Interrupting(usize),
    /// writes of up to 64 bytes are atomic (a directory slot is never torn); larger writes accept
    /// between 64 and k bytes — how pipes, sockets and nearly full disks behave
    ShortLarge(usize),
}

#[derive(Clone, Debug, PartialEq, Eq)]
pub enum Call {
    Write { at: u64, len: usize, accepted: usize },
    Seek { to: u64 },
    Flush,
    FailedWrite { at: u64, len: usize },
    FailedSeek,
    PanickedWrite { at: u64, len: usize },
}

/// What to do at call number `fail_at` (calls = write + seek, counted from 0).
#[derive(Clone, Copy, Debug, PartialEq, Eq)]
pub enum Fault {
    None,
    Error,
    /// a write that stores a strict prefix and then fails
    PartialThenError,
    Panic,
}

pub const SNAP_HEAD: usize = 16 * 1024;

pub struct DestState {
    pub data: Vec<u8>,
    pub pos: u64,
    pub mode: Mode,
    pub rng: Rng,
    pub calls: usize,
    pub fail_at: Option<usize>,
    pub fault: Fault,
    pub log: Vec<Call>,
    /// content snapshot after every completed call (only when `record_snapshots`)
    pub record_snapshots: bool,
    /// (length, first SNAP_HEAD bytes) after every completed call: the writers only ever append or
    /// patch the directory near the start, so a snapshot is the final content cut at `length`
    /// with this head put back
    pub snapshots: Vec<(usize, Vec<u8>)>,
    pub failed: bool,
    /// absolute position of `data[0]`: a destination that is positioned far into a huge file (beyond
    /// 4 GiB, say) is modelled by a window that starts here; stores below it are only counted
    pub origin: u64,
    pub stores_below_origin: u64,
}

impl DestState {
    pub fn new(initial: Vec<u8>, pos: u64, mode: Mode, seed: u64) -> Self {
        DestState {
            data: initial,
            pos,
            mode,
            rng: Rng::new(seed),
            calls: 0,
            fail_at: None,
            fault: Fault::None,
            log: Vec::new(),
            record_snapshots: false,
            snapshots: Vec::new(),
            failed: false,
            origin: 0,
            stores_below_origin: 0,
        }
    }
    pub fn plain() -> Self {
        Self::new(Vec::new(), 0, Mode::Plain, 0)
    }
    pub fn with_fault(mut self, at: usize, fault: Fault) -> Self {
        self.fail_at = Some(at);
        self.fault = fault;
        self
    }
    fn store(&mut self, buf: &[u8]) {
        if buf.is_empty() {
            return;
        }
        if self.pos < self.origin {
            self.stores_below_origin += 1;
            self.pos += buf.len() as u64;
            return;
        }
        let at = (self.pos - self.origin) as usize;
        if self.data.len() < at {
            self.data.resize(at, 0);
        }
        let end = at + buf.len();
        if self.data.len() < end {
            self.data.resize(end, 0);
        }
        self.data[at..end].copy_from_slice(buf);
        self.pos = self.origin + end as u64;
    }
    fn snap(&mut self) {
        if self.record_snapshots {
            let n = std::cmp::min(self.data.len(), SNAP_HEAD);
            self.snapshots.push((self.data.len(), self.data[..n].to_vec()));
        }
    }
    fn due(&mut self) -> Fault {
        let n = self.calls;
        self.calls += 1;
        if Some(n) == self.fail_at {
            self.failed = true;
            self.fault
        } else {
            Fault::None
        }
    }
}

impl Write for DestState {
    fn write(&mut self, buf: &[u8]) -> std::io::Result<usize> {
        if buf.is_empty() {
            return Ok(0);
        }
        if let Mode::Interrupting(_) = self.mode {
            if self.rng.chance(1, 4) {
                return Err(Error::new(ErrorKind::Interrupted, "injected EINTR"));
            }
        }
        match self.due() {
            Fault::None => {}
            Fault::Error => {
                self.log.push(Call::FailedWrite { at: self.pos, len: buf.len() });
                return Err(Error::other("injected write failure"));
            }
            Fault::PartialThenError => {
                // writes of at most 64 bytes (a directory slot is 12) are atomic, as in Mode::ShortLarge:
                // a slot torn by the destination is a boundary the writer does not control
                let k = if buf.len() <= 64 { 0 } else { self.rng.usize_below(buf.len()) };
                let at = self.pos;
                self.store(&buf[..k]);
                self.log.push(Call::FailedWrite { at, len: buf.len() });
                return Err(Error::other("injected write failure after partial store"));
            }
            Fault::Panic => {
                self.log.push(Call::PanickedWrite { at: self.pos, len: buf.len() });
                panic!("injected destination panic");
            }
        }
        let n = match self.mode {
            Mode::Plain => buf.len(),
            Mode::Short(k) | Mode::Interrupting(k) => {
                std::cmp::min(buf.len(), 1 + self.rng.usize_below(k))
            }
            Mode::ShortLarge(k) => {
                if buf.len() <= 64 {
                    buf.len()
                } else {
                    std::cmp::min(buf.len(), 64 + self.rng.usize_below(std::cmp::max(k, 65) - 64))
                }
            }
        };
        let at = self.pos;
        self.store(&buf[..n]);
        self.log.push(Call::Write { at, len: buf.len(), accepted: n });
        self.snap();
        Ok(n)
    }
    fn flush(&mut self) -> std::io::Result<()> {
        self.log.push(Call::Flush);
        Ok(())
    }
}

impl Seek for DestState {
    fn seek(&mut self, to: SeekFrom) -> std::io::Result<u64> {
        // stream_position() is seek(Current(0)): never counted as a fault point of its own
        // unless it really moves
        let newpos = match to {
            SeekFrom::Start(p) => p as i128,
            SeekFrom::Current(d) => self.pos as i128 + d as i128,
            SeekFrom::End(d) => self.origin as i128 + self.data.len() as i128 + d as i128,
        };
        if newpos < 0 {
            return Err(Error::new(ErrorKind::InvalidInput, "seek before start"));
        }
        match self.due() {
            Fault::None => {}
            Fault::Panic => panic!("injected destination panic"),
            _ => {
                self.log.push(Call::FailedSeek);
                return Err(Error::other("injected seek failure"));
            }
        }
        self.pos = newpos as u64;
        self.log.push(Call::Seek { to: self.pos });
        self.snap();
        Ok(self.pos)
    }
}

/// Shared handle: the writer under test holds one clone (`&mut Dest`), the monitor another, so
/// the destination can be inspected after every call while it is still borrowed.
#[derive(Clone)]
pub struct Dest(pub std::rc::Rc<std::cell::RefCell<DestState>>);

impl Dest {
    pub fn new(initial: Vec<u8>, pos: u64, mode: Mode, seed: u64) -> Self {
        Dest(std::rc::Rc::new(std::cell::RefCell::new(DestState::new(initial, pos, mode, seed))))
    }
    pub fn plain() -> Self {
        Self::new(Vec::new(), 0, Mode::Plain, 0)
    }
    /// `initial` sits at absolute position `origin`; `pos` is absolute too
    pub fn new_at(origin: u64, initial: Vec<u8>, pos: u64, mode: Mode, seed: u64) -> Self {
        let d = Self::new(initial, pos, mode, seed);
        d.0.borrow_mut().origin = origin;
        d
    }
    pub fn stores_below_origin(&self) -> u64 {
        self.0.borrow().stores_below_origin
    }
    pub fn set_fault(&self, at: usize, fault: Fault) {
        let mut s = self.0.borrow_mut();
        s.fail_at = Some(at);
        s.fault = fault;
    }
    pub fn record_snapshots(&self) {
        self.0.borrow_mut().record_snapshots = true;
    }
    pub fn data(&self) -> Vec<u8> {
        self.0.borrow().data.clone()
    }
    pub fn failed(&self) -> bool {
        self.0.borrow().failed
    }
    pub fn calls(&self) -> usize {
        self.0.borrow().calls
    }
    pub fn snapshots(&self) -> Vec<(usize, Vec<u8>)> {
        self.0.borrow().snapshots.clone()
    }
    /// Calls `f(j, content)` for every snapshot, reconstructing each in one scratch buffer.
    pub fn for_each_snapshot(&self, mut f: impl FnMut(usize, &[u8]) -> bool) {
        let st = self.0.borrow();
        let mut cur = st.data.clone();
        for (j, (len, head)) in st.snapshots.iter().enumerate() {
            let len = std::cmp::min(*len, cur.len());
            let n = std::cmp::min(head.len(), len);
            cur[..n].copy_from_slice(&head[..n]);
            if !f(j, &cur[..len]) {
                break;
            }
        }
    }
    pub fn log(&self) -> Vec<Call> {
        self.0.borrow().log.clone()
    }
}
impl Write for Dest {
    fn write(&mut self, buf: &[u8]) -> std::io::Result<usize> {
        let r = std::panic::AssertUnwindSafe(&self.0);
        let mut g = r.borrow_mut();
        g.write(buf)
    }
    fn flush(&mut self) -> std::io::Result<()> {
        self.0.borrow_mut().flush()
    }
}
impl Seek for Dest {
    fn seek(&mut self, to: SeekFrom) -> std::io::Result<u64> {
        self.0.borrow_mut().seek(to)
    }
}
