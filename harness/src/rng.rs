//! Small deterministic PRNG (splitmix64) so that every case is reproducible from VERIF_SEED.

#[derive(Clone, Debug)]
pub struct Rng(pub u64);

impl Rng {
    pub fn new(seed: u64) -> Self {
        Rng(seed ^ 0x9E37_79B9_7F4A_7C15)
    }
    pub fn fork(&mut self, salt: u64) -> Rng {
        Rng(self.next() ^ salt.wrapping_mul(0xD134_2543_DE82_EF95))
    }
    #[allow(clippy::should_implement_trait)]
    pub fn next(&mut self) -> u64 {
        self.0 = self.0.wrapping_add(0x9E37_79B9_7F4A_7C15);
        let mut z = self.0;
        z = (z ^ (z >> 30)).wrapping_mul(0xBF58_476D_1CE4_E5B9);
        z = (z ^ (z >> 27)).wrapping_mul(0x94D0_49BB_1331_11EB);
        z ^ (z >> 31)
    }
    pub fn below(&mut self, n: u64) -> u64 {
        if n == 0 {
            0
        } else {
            self.next() % n
        }
    }
    pub fn usize_below(&mut self, n: usize) -> usize {
        self.below(n as u64) as usize
    }
    /// inclusive range
    pub fn range(&mut self, lo: u64, hi: u64) -> u64 {
        lo + self.below(hi - lo + 1)
    }
    pub fn chance(&mut self, num: u64, den: u64) -> bool {
        self.below(den) < num
    }
    pub fn pick<'a, T>(&mut self, xs: &'a [T]) -> &'a T {
        &xs[self.usize_below(xs.len())]
    }
    pub fn bytes(&mut self, n: usize) -> Vec<u8> {
        let mut v = Vec::with_capacity(n);
        while v.len() < n {
            let x = self.next().to_le_bytes();
            let take = std::cmp::min(8, n - v.len());
            v.extend_from_slice(&x[..take]);
        }
        v
    }
    pub fn u32(&mut self) -> u32 {
        self.next() as u32
    }
    pub fn u16(&mut self) -> u16 {
        self.next() as u16
    }
    pub fn u8(&mut self) -> u8 {
        self.next() as u8
    }
    /// A u64 biased to interesting values.
    pub fn interesting_u64(&mut self) -> u64 {
        match self.below(8) {
            0 => 0,
            1 => u64::MAX,
            2 => 1 << self.below(64),
            3 => (1u64 << self.below(64)).wrapping_sub(1),
            4 => self.below(4096),
            _ => self.next(),
        }
    }
    pub fn shuffle<T>(&mut self, xs: &mut [T]) {
        for i in (1..xs.len()).rev() {
            let j = self.usize_below(i + 1);
            xs.swap(i, j);
        }
    }
}

/// FNV-1a 64 — used to hash case descriptors for the distinct-case count.
pub fn fnv(data: &[u8]) -> u64 {
    let mut h: u64 = 0xcbf2_9ce4_8422_2325;
    for b in data {
        h ^= *b as u64;
        h = h.wrapping_mul(0x0100_0000_01b3);
    }
    h
}

/// The address-derived byte pattern the target fills memory with: b(a).
#[inline]
pub fn pat(a: u64) -> u8 {
    let mut z = a.wrapping_mul(0x9E37_79B9_7F4A_7C15);
    z ^= z >> 29;
    z = z.wrapping_mul(0xBF58_476D_1CE4_E5B9);
    (z >> 56) as u8 | 1
}
