//! Runtime-monitoring harness for minidump-writer (see /verif/DESIGN.md).
pub mod dest;
pub mod props;
pub mod report;
pub mod rng;
pub mod util;
