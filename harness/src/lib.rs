//! Runtime-monitoring harness for minidump-writer (see /verif/DESIGN.md).
pub mod dest;
pub mod dump;
pub mod elf;
pub mod image;
pub mod props;
pub mod report;
pub mod rng;
pub mod scen;
pub mod spec;
pub mod target;
pub mod tspec;
pub mod util;
