//! Synthetic ELF image builder and an INDEPENDENT ELF reader (build-id note, XOR-fold fallback,
//! DT_SONAME) written from the ELF specification — no goblin, no code shared with the crate
//! under test.

use crate::rng::Rng;

// ------------------------------------------------------------------------------------------
// builder
// ------------------------------------------------------------------------------------------

#[derive(Clone, Debug)]
pub struct ElfSpec {
    pub bits64: bool,
    /// build-id bytes placed in a PT_NOTE segment (None: no PT_NOTE at all)
    pub phdr_note: Option<Vec<u8>>,
    /// build-id note reachable only through the section table
    pub section_note: Option<Vec<u8>>,
    pub soname: Option<String>,
    pub section_table: bool,
    /// bytes of .text (first executable section; XOR-fold fallback input)
    pub text: Vec<u8>,
    /// extra vaddr bias: p_vaddr = p_offset + bias for every segment (0: memory and file agree)
    pub vaddr_bias: u64,
    pub data_pages: usize,
    /// an additional, EMPTY PT_NOTE segment placed before the real one (well-formed: p_filesz == 0)
    pub empty_first_note: bool,
    /// .text starts this many bytes into its page (0: page aligned): the first page of the section
    /// then crosses a file-page boundary
    pub text_skew: usize,
    /// DT_SONAME placed after DT_STRTAB / DT_STRSZ in the dynamic section (the order is free)
    pub soname_last: bool,
    /// the `.dynamic` SECTION ends before its DT_NULL terminator (as some strippers leave it): a
    /// reader that walks the section sees no terminator inside it
    pub dynamic_section_cuts_null: bool,
    /// ELFDATA2MSB: every multi-byte field of the image (headers, notes, dynamic entries) is stored
    /// most-significant byte first - an image of a foreign architecture mapped by a cross tool, an
    /// emulator or a binary inspector. (Not drawn by `random`: callers opt in.)
    pub big_endian: bool,
    /// the page holding the dynamic string table is ALSO loaded by a further PT_LOAD at a much
    /// higher address, and DT_STRTAB points there (what `patchelf --set-soname/--set-rpath` and
    /// similar post-link editors produce): the string table's segment has another
    /// address-to-offset delta than the first one. (Not drawn by `random`: file-image lanes opt in -
    /// the loader model of the live lanes maps segments back to back.)
    pub strtab_own_segment: bool,
}

impl ElfSpec {
    pub fn random(rng: &mut Rng) -> ElfSpec {
        let id_len = *rng.pick(&[20usize, 20, 20, 16, 8, 32]);
        let idkind = rng.below(6);
        let id = rng.bytes(id_len);
        let text_len = *rng.pick(&[16usize, 100, 4096, 4097, 9000, 1]);
        ElfSpec {
            bits64: rng.chance(4, 5),
            phdr_note: if idkind <= 2 { Some(id.clone()) } else if idkind == 5 { Some(vec![0; id_len]) } else { None },
            section_note: if idkind == 3 { Some(id) } else { None },
            soname: if rng.chance(1, 2) { Some(format!("libsyn{}.so.{}", rng.below(1000), rng.below(9))) } else { None },
            section_table: idkind >= 3 || rng.chance(1, 2),
            text: rng.bytes(text_len),
            vaddr_bias: 0,
            data_pages: 1,
            empty_first_note: rng.chance(1, 4),
            text_skew: *rng.pick(&[0usize, 0, 0, 0, 0x40, 0x34, 0x800, 0xfff, 0xff0, 1]),
            soname_last: rng.chance(1, 3),
            // (only used where a watchdog surrounds the reader: a reader that never ends would hang an in-process check)
            dynamic_section_cuts_null: false,
            big_endian: false,
            strtab_own_segment: false,
        }
    }
}

pub struct Built {
    pub bytes: Vec<u8>,
    /// (file offset, size, prot r/w/x bits 4/2/1) of the PT_LOAD segments, page aligned
    pub loads: Vec<(u64, u64, u8)>,
    /// positions of interesting structures for the structure-aware mutator
    pub fields: Vec<Field>,
}

#[derive(Clone, Debug)]
pub struct Field {
    pub name: String,
    pub off: usize,
    pub size: usize,
}

struct Out {
    b: Vec<u8>,
    fields: Vec<Field>,
    bits64: bool,
    be: bool,
}
impl Out {
    fn pad_to(&mut self, n: usize) {
        if self.b.len() < n {
            self.b.resize(n, 0);
        }
    }
    fn f(&mut self, name: &str, size: usize, v: u64) {
        self.fields.push(Field { name: name.to_string(), off: self.b.len(), size });
        for i in 0..size {
            let sh = if self.be { size - 1 - i } else { i };
            self.b.push((v >> (8 * sh)) as u8);
        }
    }
    fn word(&mut self, name: &str, v: u64) {
        let s = if self.bits64 { 8 } else { 4 };
        self.f(name, s, v);
    }
}

pub fn note_bytes(name: &[u8], ntype: u32, desc: &[u8]) -> Vec<u8> {
    note_bytes_e(false, name, ntype, desc)
}

pub fn note_bytes_e(be: bool, name: &[u8], ntype: u32, desc: &[u8]) -> Vec<u8> {
    let w = |x: u32| if be { x.to_be_bytes() } else { x.to_le_bytes() };
    let mut v = Vec::new();
    v.extend_from_slice(&w(name.len() as u32));
    v.extend_from_slice(&w(desc.len() as u32));
    v.extend_from_slice(&w(ntype));
    v.extend_from_slice(name);
    while v.len() % 4 != 0 {
        v.push(0);
    }
    v.extend_from_slice(desc);
    while v.len() % 4 != 0 {
        v.push(0);
    }
    v
}

pub fn build(spec: &ElfSpec) -> Built {
    let b64 = spec.bits64;
    let be = spec.big_endian;
    let mut o = Out { b: Vec::new(), fields: Vec::new(), bits64: b64, be };
    let ehsize = if b64 { 64 } else { 52 };
    let phentsize = if b64 { 56 } else { 32 };
    let shentsize = if b64 { 64 } else { 40 };
    let bias = spec.vaddr_bias;

    // ---- layout decisions
    let note_off = 0x200usize;
    let note = spec.phdr_note.as_ref().map(|id| {
        let mut n = note_bytes_e(be, b"XYZ\0", 1, &[1, 2, 3, 4]); // a foreign note first
        n.extend_from_slice(&note_bytes_e(be, b"GNU\0", 3, id));
        n
    });
    let dyn_off = 0x300usize;
    let dynstr_off = 0x400usize;
    let mut dynstr = vec![0u8];
    dynstr.extend_from_slice(b"libdep.so.1\0");
    let soname_off = dynstr.len();
    if let Some(s) = &spec.soname {
        dynstr.extend_from_slice(s.as_bytes());
        dynstr.push(0);
    }
    dynstr.extend_from_slice(b"trailing\0");
    let text_off = 0x1000usize;
    let text_pages = std::cmp::max(1, (spec.text_skew + spec.text.len()).div_ceil(0x1000));
    let data_off = text_off + text_pages * 0x1000;
    let data_len = spec.data_pages * 0x1000;
    let tail_off = data_off + data_len; // unloaded: section notes, shstrtab, section headers
    let secnote = spec.section_note.as_ref().map(|id| note_bytes_e(be, b"GNU\0", 3, id));

    let mut phdrs: Vec<(u32, u32, u64, u64, u64, u64)> = Vec::new(); // type, flags, offset, filesz, memsz, align
    phdrs.push((1, 4, 0, 0x1000, 0x1000, 0x1000)); // PT_LOAD r--
    phdrs.push((1, 5, text_off as u64, (text_pages * 0x1000) as u64, (text_pages * 0x1000) as u64, 0x1000)); // r-x
    phdrs.push((1, 6, data_off as u64, data_len as u64, data_len as u64, 0x1000)); // rw-
    const STRTAB_DELTA: u64 = 0x20_0000;
    let special = if spec.strtab_own_segment {
        phdrs.push((1, 4, 0, 0x1000, 0x1000, 0x1000)); // r--: the first page again, 2 MiB higher
        Some(phdrs.len() - 1)
    } else {
        None
    };
    let strtab_delta = if spec.strtab_own_segment { STRTAB_DELTA } else { 0 };
    if spec.empty_first_note {
        phdrs.push((4, 4, (note_off - 8) as u64, 0, 0, 4));
    }
    if let Some(n) = &note {
        phdrs.push((4, 4, note_off as u64, n.len() as u64, n.len() as u64, 4));
    }
    let ndyn = 5 + spec.soname.is_some() as usize;
    let dynent = if b64 { 16 } else { 8 };
    phdrs.push((2, 6, dyn_off as u64, (ndyn * dynent) as u64, (ndyn * dynent) as u64, 8));

    // ---- section table (in the unloaded tail)
    let mut shstr = vec![0u8];
    let mut name_idx = |s: &str, shstr: &mut Vec<u8>| -> u32 {
        let i = shstr.len() as u32;
        shstr.extend_from_slice(s.as_bytes());
        shstr.push(0);
        i
    };
    let n_text = name_idx(".text", &mut shstr);
    let n_note = name_idx(".note.gnu.build-id", &mut shstr);
    let n_shstr = name_idx(".shstrtab", &mut shstr);
    let n_dyn = name_idx(".dynamic", &mut shstr);
    let n_dynstr = name_idx(".dynstr", &mut shstr);
    let n_data = name_idx(".data", &mut shstr);
    let secnote_off = tail_off;
    let shstr_off = secnote_off + secnote.as_ref().map(|n| n.len()).unwrap_or(0);
    let shoff = (shstr_off + shstr.len() + 15) & !15;

    // ---- ELF header
    o.b.extend_from_slice(&[0x7f, b'E', b'L', b'F', if b64 { 2 } else { 1 }, if be { 2 } else { 1 }, 1, 0, 0, 0, 0, 0, 0, 0, 0, 0]);
    o.f("e_type", 2, 3); // ET_DYN
    o.f("e_machine", 2, match (b64, be) { (true, false) => 62, (false, false) => 3, (true, true) => 22, (false, true) => 20 }); // x86-64, i386, s390x, ppc
    o.f("e_version", 4, 1);
    o.word("e_entry", text_off as u64 + bias);
    o.word("e_phoff", ehsize as u64);
    o.word("e_shoff", if spec.section_table { shoff as u64 } else { 0 });
    o.f("e_flags", 4, 0);
    o.f("e_ehsize", 2, ehsize as u64);
    o.f("e_phentsize", 2, phentsize as u64);
    o.f("e_phnum", 2, phdrs.len() as u64);
    o.f("e_shentsize", 2, shentsize as u64);
    // sections: null, .text, [.note], .shstrtab, .dynamic, .dynstr, .data
    let nsec = if spec.section_table { 6 + (secnote.is_some() || note.is_some()) as usize } else { 0 };
    o.f("e_shnum", 2, nsec as u64);
    let has_note_sec = secnote.is_some() || note.is_some();
    let shstrndx = if spec.section_table { 2 + has_note_sec as u64 } else { 0 };
    o.f("e_shstrndx", 2, shstrndx);
    assert_eq!(o.b.len(), ehsize);

    // ---- program headers
    for (i, (t, fl, off, fsz, msz, al)) in phdrs.iter().enumerate() {
        let p = format!("ph{i}.");
        let bias = bias + if Some(i) == special { STRTAB_DELTA } else { 0 };
        if b64 {
            o.f(&(p.clone() + "p_type"), 4, *t as u64);
            o.f(&(p.clone() + "p_flags"), 4, *fl as u64);
            o.f(&(p.clone() + "p_offset"), 8, *off);
            o.f(&(p.clone() + "p_vaddr"), 8, *off + bias);
            o.f(&(p.clone() + "p_paddr"), 8, *off + bias);
            o.f(&(p.clone() + "p_filesz"), 8, *fsz);
            o.f(&(p.clone() + "p_memsz"), 8, *msz);
            o.f(&(p.clone() + "p_align"), 8, *al);
        } else {
            o.f(&(p.clone() + "p_type"), 4, *t as u64);
            o.f(&(p.clone() + "p_offset"), 4, *off);
            o.f(&(p.clone() + "p_vaddr"), 4, *off + bias);
            o.f(&(p.clone() + "p_paddr"), 4, *off + bias);
            o.f(&(p.clone() + "p_filesz"), 4, *fsz);
            o.f(&(p.clone() + "p_memsz"), 4, *msz);
            o.f(&(p.clone() + "p_flags"), 4, *fl as u64);
            o.f(&(p.clone() + "p_align"), 4, *al);
        }
    }
    assert!(o.b.len() <= note_off);

    // ---- note
    o.pad_to(note_off);
    if let Some(n) = &note {
        // field positions of the GNU note header (second note)
        let first = note_bytes(b"XYZ\0", 1, &[1, 2, 3, 4]).len();
        o.fields.push(Field { name: "note.namesz".into(), off: note_off + first, size: 4 });
        o.fields.push(Field { name: "note.descsz".into(), off: note_off + first + 4, size: 4 });
        o.fields.push(Field { name: "note.type".into(), off: note_off + first + 8, size: 4 });
        o.fields.push(Field { name: "note0.namesz".into(), off: note_off, size: 4 });
        o.fields.push(Field { name: "note0.descsz".into(), off: note_off + 4, size: 4 });
        o.b.extend_from_slice(n);
    }
    assert!(o.b.len() <= dyn_off);
    // ---- dynamic
    o.pad_to(dyn_off);
    let mut dyns: Vec<(u64, u64)> = vec![(1, 1)]; // DT_NEEDED libdep
    if spec.soname.is_some() && !spec.soname_last {
        dyns.push((14, soname_off as u64)); // DT_SONAME
    }
    dyns.push((5, dynstr_off as u64 + bias + strtab_delta)); // DT_STRTAB
    dyns.push((10, dynstr.len() as u64)); // DT_STRSZ
    if spec.soname.is_some() && spec.soname_last {
        dyns.push((14, soname_off as u64)); // DT_SONAME
    }
    dyns.push((21, 0)); // DT_DEBUG
    dyns.push((0, 0));
    assert_eq!(dyns.len(), ndyn);
    for (i, (t, v)) in dyns.iter().enumerate() {
        o.word(&format!("dyn{i}.d_tag"), *t);
        o.word(&format!("dyn{i}.d_val"), *v);
    }
    assert!(o.b.len() <= dynstr_off);
    o.pad_to(dynstr_off);
    o.b.extend_from_slice(&dynstr);
    assert!(o.b.len() <= text_off);
    o.pad_to(text_off + spec.text_skew);
    o.b.extend_from_slice(&spec.text);
    o.pad_to(data_off);
    // data: recognisable pattern
    for i in 0..data_len {
        o.b.push((i % 251) as u8);
    }
    // ---- tail
    if spec.section_table || secnote.is_some() {
        if let Some(n) = &secnote {
            o.b.extend_from_slice(n);
        }
        o.b.extend_from_slice(&shstr);
        o.pad_to(shoff);
        if spec.section_table {
            let mut secs: Vec<(u32, u32, u64, u64, u64, u64, u32, u64)> = Vec::new(); // name,type,flags,addr,off,size,link,addralign
            secs.push((0, 0, 0, 0, 0, 0, 0, 0));
            secs.push((n_text, 1, 2 | 4, (text_off + spec.text_skew) as u64 + bias, (text_off + spec.text_skew) as u64, spec.text.len() as u64, 0, 16));
            if let Some(n) = &secnote {
                secs.push((n_note, 7, 0, 0, secnote_off as u64, n.len() as u64, 0, 4));
            } else if let Some(n) = &note {
                secs.push((n_note, 7, 2, note_off as u64 + bias, note_off as u64, n.len() as u64, 0, 4));
            }
            secs.push((n_shstr, 3, 0, 0, shstr_off as u64, shstr.len() as u64, 0, 1));
            let dynstr_idx = secs.len() as u32 + 1;
            secs.push((n_dyn, 6, 3, dyn_off as u64 + bias, dyn_off as u64, ((ndyn - spec.dynamic_section_cuts_null as usize) * dynent) as u64, dynstr_idx, 8));
            secs.push((n_dynstr, 3, 2, dynstr_off as u64 + bias + strtab_delta, dynstr_off as u64, dynstr.len() as u64, 0, 1));
            secs.push((n_data, 1, 3, data_off as u64 + bias, data_off as u64, data_len as u64, 0, 8));
            assert_eq!(secs.len(), nsec);
            for (i, s) in secs.iter().enumerate() {
                let p = format!("sh{i}.");
                o.f(&(p.clone() + "sh_name"), 4, s.0 as u64);
                o.f(&(p.clone() + "sh_type"), 4, s.1 as u64);
                o.word(&(p.clone() + "sh_flags"), s.2);
                o.word(&(p.clone() + "sh_addr"), s.3);
                o.word(&(p.clone() + "sh_offset"), s.4);
                o.word(&(p.clone() + "sh_size"), s.5);
                o.f(&(p.clone() + "sh_link"), 4, s.6 as u64);
                o.f(&(p.clone() + "sh_info"), 4, 0);
                o.word(&(p.clone() + "sh_addralign"), s.7);
                o.word(&(p.clone() + "sh_entsize"), 0);
            }
        }
    }
    let loads = vec![
        (0u64, 0x1000u64, 4u8),
        (text_off as u64, (text_pages * 0x1000) as u64, 5u8),
        (data_off as u64, data_len as u64, 6u8),
    ];
    // the file must cover every PT_LOAD
    o.pad_to(tail_off);
    Built { bytes: o.b, loads, fields: o.fields }
}

// ------------------------------------------------------------------------------------------
// independent reader
// ------------------------------------------------------------------------------------------

#[derive(Debug, Clone, PartialEq, Eq)]
pub enum IdSource {
    PhdrNote,
    SectionNote,
    TextFold,
}

#[derive(Debug, Clone, Default)]
pub struct ElfFacts {
    pub wellformed: bool,
    pub why_not: String,
    pub build_id: Option<(Vec<u8>, IdSource)>,
    pub soname: Option<String>,
    /// the dynamic string table address translates to a different file offset than its value
    pub strtab_vaddr_ne_offset: bool,
    /// PT_NOTE p_offset differs from p_vaddr (memory view would look elsewhere)
    pub note_vaddr_ne_offset: bool,
}

struct Rd<'a> {
    d: &'a [u8],
    le: bool,
    b64: bool,
}
impl Rd<'_> {
    fn u(&self, off: usize, n: usize) -> Option<u64> {
        let s = self.d.get(off..off.checked_add(n)?)?;
        let mut v = 0u64;
        if self.le {
            for (i, b) in s.iter().enumerate() {
                v |= (*b as u64) << (8 * i);
            }
        } else {
            for b in s {
                v = (v << 8) | *b as u64;
            }
        }
        Some(v)
    }
    fn word(&self, off: usize) -> Option<u64> {
        self.u(off, if self.b64 { 8 } else { 4 })
    }
}

struct Ph {
    t: u32,
    off: u64,
    vaddr: u64,
    filesz: u64,
}
struct Sh {
    name: u32,
    t: u32,
    flags: u64,
    off: u64,
    size: u64,
    link: u32,
}

fn find_gnu_build_id(r: &Rd, off: u64, size: u64, align8: bool) -> Option<Vec<u8>> {
    let data = r.d.get(off as usize..(off.checked_add(size)?) as usize)?;
    let al = if align8 { 8 } else { 4 };
    let mut p = 0usize;
    while p + 12 <= data.len() {
        let rr = Rd { d: data, le: r.le, b64: r.b64 };
        let namesz = rr.u(p, 4)? as usize;
        let descsz = rr.u(p + 4, 4)? as usize;
        let ntype = rr.u(p + 8, 4)? as u32;
        let name_start = p + 12;
        let name_end = name_start.checked_add(namesz)?;
        let desc_start = (name_end + al - 1) & !(al - 1);
        let desc_end = desc_start.checked_add(descsz)?;
        if desc_end > data.len() {
            return None;
        }
        let name = &data[name_start..name_end];
        if name == b"GNU\0" && ntype == 3 {
            return Some(data[desc_start..desc_end].to_vec());
        }
        p = (desc_end + al - 1) & !(al - 1);
    }
    None
}

pub fn xor_fold(data: &[u8]) -> Vec<u8> {
    let mut id = vec![0u8; 16];
    for (i, b) in data.iter().enumerate() {
        id[i % 16] ^= *b;
    }
    id
}

fn cstr_at(d: &[u8], off: usize, limit: usize) -> Option<String> {
    let s = d.get(off..std::cmp::min(d.len(), off.checked_add(limit)?))?;
    let n = s.iter().position(|b| *b == 0)?;
    Some(String::from_utf8_lossy(&s[..n]).into_owned())
}

/// Reads the facts the property talks about. `wellformed` is conservative: anything unusual
/// (truncated tables, overlapping nonsense) makes it false and then no comparison is made.
pub fn read_facts(d: &[u8]) -> ElfFacts {
    let mut f = ElfFacts::default();
    macro_rules! bail {
        ($($t:tt)*) => {{ f.why_not = format!($($t)*); return f; }};
    }
    if d.len() < 52 || &d[..4] != b"\x7fELF" {
        bail!("no ELF magic");
    }
    let b64 = match d[4] {
        1 => false,
        2 => true,
        _ => bail!("bad EI_CLASS"),
    };
    let le = match d[5] {
        1 => true,
        2 => false,
        _ => bail!("bad EI_DATA"),
    };
    let r = Rd { d, le, b64 };
    let (phoff, shoff, phentsize, phnum, shentsize, shnum, shstrndx) = if b64 {
        (r.u(32, 8), r.u(40, 8), r.u(54, 2), r.u(56, 2), r.u(58, 2), r.u(60, 2), r.u(62, 2))
    } else {
        (r.u(28, 4), r.u(32, 4), r.u(42, 2), r.u(44, 2), r.u(46, 2), r.u(48, 2), r.u(50, 2))
    };
    let (Some(phoff), Some(shoff), Some(phentsize), Some(phnum), Some(shentsize), Some(shnum), Some(shstrndx)) =
        (phoff, shoff, phentsize, phnum, shentsize, shnum, shstrndx)
    else {
        bail!("truncated header");
    };
    let exp_ph = if b64 { 56 } else { 32 };
    let exp_sh = if b64 { 64 } else { 40 };
    if phnum > 0 && phentsize != exp_ph {
        bail!("odd e_phentsize");
    }
    if shnum > 0 && shentsize != exp_sh {
        bail!("odd e_shentsize");
    }
    if phnum == 0xffff || shnum == 0 && shoff != 0 {
        bail!("extended numbering");
    }
    let mut phs = Vec::new();
    if phoff != 0 {
        for i in 0..phnum {
            let o = (phoff + i * phentsize) as usize;
            let p = if b64 {
                (r.u(o, 4), r.u(o + 8, 8), r.u(o + 16, 8), r.u(o + 32, 8))
            } else {
                (r.u(o, 4), r.u(o + 4, 4), r.u(o + 8, 4), r.u(o + 16, 4))
            };
            let (Some(t), Some(off), Some(vaddr), Some(filesz)) = p else { bail!("truncated program headers") };
            phs.push(Ph { t: t as u32, off, vaddr, filesz });
        }
    }
    let mut shs = Vec::new();
    if shoff != 0 {
        for i in 0..shnum {
            let o = (shoff + i * shentsize) as usize;
            let s = if b64 {
                (r.u(o, 4), r.u(o + 4, 4), r.u(o + 8, 8), r.u(o + 24, 8), r.u(o + 32, 8), r.u(o + 40, 4))
            } else {
                (r.u(o, 4), r.u(o + 4, 4), r.u(o + 8, 4), r.u(o + 16, 4), r.u(o + 20, 4), r.u(o + 24, 4))
            };
            let (Some(name), Some(t), Some(flags), Some(off), Some(size), Some(link)) = s else { bail!("truncated section headers") };
            shs.push(Sh { name: name as u32, t: t as u32, flags, off, size, link: link as u32 });
        }
    }
    // every PT_NOTE / PT_DYNAMIC / non-NOBITS section must lie inside the file
    for p in &phs {
        if (p.t == 4 || p.t == 2) && p.off.checked_add(p.filesz).map(|e| e as usize > d.len()).unwrap_or(true) {
            bail!("segment outside file");
        }
    }
    for s in &shs {
        if s.t != 8 && s.t != 0 && s.off.checked_add(s.size).map(|e| e as usize > d.len()).unwrap_or(true) {
            bail!("section outside file");
        }
    }
    f.wellformed = true;
    let vaddr_to_off = |va: u64| -> Option<u64> {
        // PT_LOAD translation
        for i in 0..phnum {
            let o = (phoff + i * phentsize) as usize;
            let (t, off, vaddr, filesz) = if b64 {
                (r.u(o, 4)?, r.u(o + 8, 8)?, r.u(o + 16, 8)?, r.u(o + 32, 8)?)
            } else {
                (r.u(o, 4)?, r.u(o + 4, 4)?, r.u(o + 8, 4)?, r.u(o + 16, 4)?)
            };
            if t == 1 && va >= vaddr && va < vaddr.checked_add(filesz)? {
                return Some(va - vaddr + off);
            }
        }
        None
    };
    // ---- build id
    for p in phs.iter().filter(|p| p.t == 4) {
        if p.off != p.vaddr {
            f.note_vaddr_ne_offset = true;
        }
        // try 4-byte alignment first, then 8 (p_align 8 notes)
        let id = find_gnu_build_id(&r, p.off, p.filesz, false);
        if let Some(id) = id {
            f.build_id = Some((id, IdSource::PhdrNote));
            break;
        }
    }
    let sec_name = |s: &Sh| -> Option<String> {
        let st = shs.get(shstrndx as usize)?;
        if st.t != 3 || s.name as u64 >= st.size {
            return None;
        }
        cstr_at(d, (st.off + s.name as u64) as usize, (st.size - s.name as u64) as usize)
    };
    if f.build_id.is_none() {
        if let Some(s) = shs.iter().find(|s| sec_name(s).as_deref() == Some(".note.gnu.build-id")) {
            if let Some(id) = find_gnu_build_id(&r, s.off, s.size, false) {
                f.build_id = Some((id, IdSource::SectionNote));
            }
        }
    }
    if f.build_id.is_none() {
        if let Some(s) = shs.iter().find(|s| s.t == 1 && s.flags & 2 != 0 && s.flags & 4 != 0) {
            let n = std::cmp::min(4096, s.size);
            if let Some(t) = d.get(s.off as usize..(s.off + n) as usize) {
                f.build_id = Some((xor_fold(t), IdSource::TextFold));
            }
        }
    }
    // ---- soname
    let dynent = if b64 { 16 } else { 8 };
    let mut read_dyn = |off: u64, size: u64| -> Option<(Option<u64>, Option<u64>, Option<u64>)> {
        let (mut so, mut strtab, mut strsz) = (None, None, None);
        let mut p = off as usize;
        let end = (off + size) as usize;
        while p + dynent <= end {
            let tag = r.word(p)?;
            let val = r.word(p + dynent / 2)?;
            match tag {
                0 => break,
                14 => so = Some(val),
                5 => strtab = Some(val),
                10 => strsz = Some(val),
                _ => {}
            }
            p += dynent;
        }
        Some((so, strtab, strsz))
    };
    if let Some(p) = phs.iter().find(|p| p.t == 2) {
        if let Some((Some(so), Some(strtab), Some(strsz))) = read_dyn(p.off, p.filesz) {
            if let Some(off) = vaddr_to_off(strtab) {
                if off != strtab {
                    f.strtab_vaddr_ne_offset = true;
                }
                if so < strsz {
                    f.soname = cstr_at(d, (off + so) as usize, (strsz - so) as usize);
                }
            }
        }
    }
    if f.soname.is_none() {
        if let Some(dsec) = shs.iter().find(|s| s.t == 6) {
            let strsec = shs.get(dsec.link as usize).filter(|s| s.t == 3).or_else(|| shs.iter().find(|s| sec_name(s).as_deref() == Some(".dynstr")));
            if let Some(ss) = strsec {
                if let Some((Some(so), _, _)) = read_dyn(dsec.off, dsec.size) {
                    if so < ss.size {
                        f.soname = cstr_at(d, (ss.off + so) as usize, (ss.size - so) as usize);
                    }
                }
            }
        }
    }
    f
}

/// Boundary values for the structure-aware mutator.
pub fn boundary_values(file_len: usize, size: usize) -> Vec<u64> {
    let n = file_len as u64;
    let mut v = vec![0, 1, 2, 3, 4, 7, 8, n.saturating_sub(1), n, n + 1, 1 << 31, (1u64 << 32) - 1, 1 << 63, u64::MAX, u64::MAX - 7, 0xffff, 0x7fff_ffff_ffff_ffff, 4096, 4095];
    let mask = if size >= 8 { u64::MAX } else { (1u64 << (8 * size)) - 1 };
    for x in v.iter_mut() {
        *x &= mask;
    }
    v.sort();
    v.dedup();
    v
}

/// Relational boundary values: the values the OTHER fields of the image hold, and their
/// neighbours (off-by-one comparisons between two fields only show at `a == b`).
pub fn relational_values(img: &[u8], fields: &[Field], size: usize) -> Vec<u64> {
    let mask = if size >= 8 { u64::MAX } else { (1u64 << (8 * size)) - 1 };
    let mut v = Vec::new();
    for f in fields {
        let mut x = 0u64;
        for i in 0..f.size.min(8) {
            if let Some(b) = img.get(f.off + i) {
                x |= (*b as u64) << (8 * i);
            }
        }
        for y in [x, x.wrapping_add(1), x.wrapping_sub(1)] {
            v.push(y & mask);
        }
    }
    v.sort();
    v.dedup();
    v
}

pub fn set_field(img: &mut [u8], f: &Field, v: u64) {
    for i in 0..f.size {
        if f.off + i < img.len() {
            img[f.off + i] = (v >> (8 * i)) as u8;
        }
    }
}
