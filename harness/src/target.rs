//! Harness side of the hostile target: spawn, readiness (logical conditions only), ground-truth
//! readers (/proc/<pid>/mem, maps, status), control page access, teardown.

use crate::spec::*;
use std::io::{Read, Seek, SeekFrom};
use std::os::unix::process::CommandExt;
use std::sync::atomic::{AtomicU64, Ordering};

pub struct Ctl {
    ptr: *mut u8,
}
unsafe impl Send for Ctl {}
unsafe impl Sync for Ctl {}

impl Ctl {
    fn word(&self, off: u64) -> &AtomicU64 {
        assert!(off + 8 <= CTL_LEN);
        unsafe { &*(self.ptr.add(off as usize) as *const AtomicU64) }
    }
    pub fn get(&self, off: u64) -> u64 {
        self.word(off).load(Ordering::SeqCst)
    }
    pub fn set(&self, off: u64, v: u64) {
        self.word(off).store(v, Ordering::SeqCst)
    }
    pub fn slot(&self, i: usize, field: u64) -> u64 {
        self.get(SLOT_BASE + i as u64 * SLOT_SIZE + field)
    }
    pub fn set_slot(&self, i: usize, field: u64, v: u64) {
        self.set(SLOT_BASE + i as u64 * SLOT_SIZE + field, v)
    }
    /// (signo, si_code, si_value) entries logged by thread slot i
    pub fn siglog(&self, i: usize) -> Vec<(u32, u32, u64)> {
        let n = std::cmp::min(self.slot(i, SLOT_SIGCOUNT), SIGLOG_SIZE / 16);
        let mut v = Vec::new();
        for k in 0..n {
            let base = SIGLOG_BASE + i as u64 * SIGLOG_SIZE + k * 16;
            let a = self.get(base);
            let val = self.get(base + 8);
            v.push((a as u32, (a >> 32) as u32, val));
        }
        v
    }
}
impl Drop for Ctl {
    fn drop(&mut self) {
        unsafe {
            libc::munmap(self.ptr as *mut _, CTL_LEN as usize);
        }
    }
}

#[derive(Clone, Debug)]
pub struct MapLine {
    pub start: u64,
    pub end: u64,
    pub perms: String,
    pub offset: u64,
    pub dev: String,
    pub inode: u64,
    pub name: String,
}

pub fn parse_maps(text: &str) -> Vec<MapLine> {
    let mut v = Vec::new();
    for l in text.lines() {
        let mut it = l.splitn(6, ' ');
        let (Some(addr), Some(perms), Some(off), Some(dev), Some(ino)) = (it.next(), it.next(), it.next(), it.next(), it.next()) else { continue };
        let name = it.next().unwrap_or("").trim().to_string();
        let Some((s, e)) = addr.split_once('-') else { continue };
        v.push(MapLine {
            start: u64::from_str_radix(s, 16).unwrap_or(0),
            end: u64::from_str_radix(e, 16).unwrap_or(0),
            perms: perms.to_string(),
            offset: u64::from_str_radix(off, 16).unwrap_or(0),
            dev: dev.to_string(),
            inode: ino.parse().unwrap_or(0),
            name,
        });
    }
    v
}

pub struct Target {
    pub pid: i32,
    pub child: Option<std::process::Child>,
    pub manifest: Manifest,
    pub ctl: Ctl,
    pub dir: String,
    pub spec: Spec,
    pub keep_dir: bool,
    pub pause_threads: Vec<usize>,
}

static COUNTER: AtomicU64 = AtomicU64::new(0);

pub fn scratch_root() -> String {
    std::env::var("VH_SCRATCH").unwrap_or_else(|_| format!("/verif/.scratch/manual-{}", std::process::id()))
}

pub fn target_bin() -> String {
    if let Ok(p) = std::env::var("VH_TARGET_BIN") {
        return p;
    }
    // always the NATIVE (uninstrumented) target: ASan's shadow would collide with the fixed
    // address plan
    let native = "/verif/.build/target/debug/vtarget";
    if std::path::Path::new(native).exists() {
        return native.to_string();
    }
    let exe = std::env::current_exe().unwrap();
    exe.parent().unwrap().join("vtarget").to_string_lossy().into_owned()
}

pub fn new_dir(tag: &str) -> String {
    let d = format!("{}/{}-{}-{}", scratch_root(), tag, std::process::id(), COUNTER.fetch_add(1, Ordering::SeqCst));
    std::fs::create_dir_all(&d).expect("scratch dir");
    d
}

#[derive(Default, Clone)]
pub struct SpawnOpts {
    pub args: Vec<Vec<u8>>,
    pub env: Option<Vec<(Vec<u8>, Vec<u8>)>>,
    /// thread indices whose readiness additionally requires being blocked in pause(2)
    pub pause_threads: Vec<usize>,
    /// thread indices that signal readiness by storing gpr[R14] into the ready word
    pub sentinel_ready: Vec<(usize, u64)>,
}

impl Target {
    pub fn spawn(mut spec: Spec, opts: &SpawnOpts) -> Result<Target, String> {
        if spec.dir.is_empty() {
            spec.dir = new_dir("t");
        }
        let dir = spec.dir.clone();
        let ctl_path = format!("{dir}/ctl");
        {
            let f = std::fs::File::create(&ctl_path).map_err(|e| e.to_string())?;
            f.set_len(CTL_LEN).map_err(|e| e.to_string())?;
        }
        let ctl = unsafe {
            let c = std::ffi::CString::new(ctl_path.clone()).unwrap();
            let fd = libc::open(c.as_ptr(), libc::O_RDWR);
            if fd < 0 {
                return Err("open ctl".into());
            }
            let p = libc::mmap(std::ptr::null_mut(), CTL_LEN as usize, libc::PROT_READ | libc::PROT_WRITE, libc::MAP_SHARED, fd, 0);
            libc::close(fd);
            if p == libc::MAP_FAILED {
                return Err("mmap ctl".into());
            }
            Ctl { ptr: p as *mut u8 }
        };
        let spec_path = format!("{dir}/spec.json");
        std::fs::write(&spec_path, serde_json::to_vec(&spec).unwrap()).map_err(|e| e.to_string())?;
        let mut cmd = std::process::Command::new(target_bin());
        cmd.arg(&spec_path);
        for a in &opts.args {
            cmd.arg(std::ffi::OsStr::from_bytes(a));
        }
        if let Some(env) = &opts.env {
            cmd.env_clear();
            for (k, v) in env {
                cmd.env(std::ffi::OsStr::from_bytes(k), std::ffi::OsStr::from_bytes(v));
            }
        }
        // where the initial stack of the main thread ends up depends on the size of the
        // environment: vary it from target to target, so that every check meets main-thread stack
        // pointers at all distances from a page boundary (not only the one this machine's
        // environment happens to produce)
        // (an explicitly EMPTY environment stays empty: `/proc/<pid>/environ` of such a process -
        // `env -i`, execve with an empty envp - has length 0)
        if !matches!(&opts.env, Some(e) if e.is_empty()) {
            static PAD: std::sync::atomic::AtomicUsize = std::sync::atomic::AtomicUsize::new(0);
            let k = PAD.fetch_add(1, std::sync::atomic::Ordering::Relaxed);
            let base: usize = std::env::var("VH_STACK_PAD_BASE").ok().and_then(|s| s.parse().ok()).unwrap_or(0);
            cmd.env("VH_STACK_PAD", "p".repeat((base + k * 389) % 4099));
        }
        cmd.stdin(std::process::Stdio::null()).stdout(std::process::Stdio::null());
        let errf = std::fs::File::create(format!("{dir}/stderr")).map_err(|e| e.to_string())?;
        cmd.stderr(errf);
        unsafe {
            cmd.pre_exec(|| {
                // ADDR_NO_RANDOMIZE
                libc::personality(0x0040000);
                Ok(())
            });
        }
        let child = cmd.spawn().map_err(|e| format!("spawn {}: {e}", target_bin()))?;
        let pid = child.id() as i32;
        let mut t = Target { pid, child: Some(child), manifest: Manifest::default(), ctl, dir: dir.clone(), spec, keep_dir: false, pause_threads: opts.pause_threads.clone() };
        // wait for the manifest (logical condition; generous watchdog)
        let t0 = std::time::Instant::now();
        loop {
            if t.ctl.get(CTL_READY) == 1 {
                break;
            }
            if let Some(c) = t.child.as_mut() {
                if let Ok(Some(st)) = c.try_wait() {
                    let err = std::fs::read_to_string(format!("{dir}/stderr")).unwrap_or_default();
                    if let Ok(keep) = std::env::var("VH_KEEP_FAILED_SPEC") {
                        let _ = std::fs::copy(format!("{dir}/spec.json"), keep);
                    }
                    return Err(format!("target exited early: {st:?}: {err}"));
                }
            }
            if t0.elapsed().as_secs() > 60 {
                return Err("target did not become ready within 60 s (watchdog)".into());
            }
            std::thread::sleep(std::time::Duration::from_micros(300));
        }
        let mtext = std::fs::read(format!("{dir}/manifest.json")).map_err(|e| e.to_string())?;
        t.manifest = serde_json::from_slice(&mtext).map_err(|e| e.to_string())?;
        if !t.manifest.errors.is_empty() {
            return Err(format!("target setup errors: {:?}", t.manifest.errors));
        }
        // thread readiness
        loop {
            let mut all = true;
            for (i, th) in t.spec.threads.iter().enumerate() {
                let ready = t.ctl.slot(i, SLOT_READY);
                let ok = match &th.kind {
                    ThreadKind::Sentinel { regs, .. } => ready == regs.gpr[R14],
                    _ => ready == 1,
                };
                if !ok {
                    all = false;
                    break;
                }
            }
            if all {
                for &i in &opts.pause_threads {
                    let tid = t.manifest.tids[i];
                    let s = std::fs::read_to_string(format!("/proc/{pid}/task/{tid}/syscall")).unwrap_or_default();
                    if !s.starts_with("34 ") {
                        all = false;
                        break;
                    }
                }
            }
            if all {
                break;
            }
            if t0.elapsed().as_secs() > 60 {
                return Err("target threads did not all become ready within 60 s (watchdog)".into());
            }
            std::thread::sleep(std::time::Duration::from_micros(300));
        }
        Ok(t)
    }

    /// Wait (logical condition, generous watchdog) until every sentinel thread that blocks in
    /// pause(2) is back inside the syscall — after a dump resumes the target they need to be
    /// scheduled once before their registers are the known ones again.
    pub fn settle(&self) -> bool {
        let t0 = std::time::Instant::now();
        loop {
            let mut all = true;
            for &i in &self.pause_threads {
                let tid = self.manifest.tids[i];
                let s = std::fs::read_to_string(format!("/proc/{}/task/{}/syscall", self.pid, tid)).unwrap_or_default();
                if !s.starts_with("34 ") {
                    all = false;
                    break;
                }
            }
            if all {
                return true;
            }
            if t0.elapsed().as_secs() > 30 {
                return false;
            }
            std::thread::sleep(std::time::Duration::from_micros(100));
        }
    }

    /// Ask the target to map its `late_regions` (logical wait with a generous watchdog).
    pub fn map_late(&self) -> bool {
        self.ctl.set(CTL_MAP_LATE, 1);
        let t0 = std::time::Instant::now();
        loop {
            match self.ctl.get(CTL_LATE_DONE) {
                1 => return true,
                2 => return false,
                _ => {}
            }
            if t0.elapsed().as_secs() > 30 {
                return false;
            }
            std::thread::sleep(std::time::Duration::from_micros(200));
        }
    }

    pub fn read_mem(&self, addr: u64, len: usize) -> Result<Vec<u8>, String> {
        let mut f = std::fs::File::open(format!("/proc/{}/mem", self.pid)).map_err(|e| e.to_string())?;
        f.seek(SeekFrom::Start(addr)).map_err(|e| e.to_string())?;
        let mut v = vec![0u8; len];
        f.read_exact(&mut v).map_err(|e| format!("read {addr:x}+{len}: {e}"))?;
        Ok(v)
    }

    pub fn maps_text(&self) -> String {
        // with an exited leader /proc/<pid>/maps is empty: read a live task's view instead
        let s = std::fs::read_to_string(format!("/proc/{}/maps", self.pid)).unwrap_or_default();
        if !s.is_empty() {
            return s;
        }
        for tid in &self.manifest.tids {
            let s = std::fs::read_to_string(format!("/proc/{}/task/{}/maps", self.pid, tid)).unwrap_or_default();
            if !s.is_empty() {
                return s;
            }
        }
        String::new()
    }

    pub fn maps(&self) -> Vec<MapLine> {
        parse_maps(&self.maps_text())
    }

    pub fn task_tids(&self) -> Vec<i32> {
        let mut v: Vec<i32> = std::fs::read_dir(format!("/proc/{}/task", self.pid))
            .map(|rd| rd.flatten().filter_map(|e| e.file_name().to_string_lossy().parse().ok()).collect())
            .unwrap_or_default();
        v.sort();
        v
    }

    /// (State letter, TracerPid, SigPnd, ShdPnd) of a thread
    pub fn thread_status(&self, tid: i32) -> Option<(char, i32, u64, u64)> {
        let s = std::fs::read_to_string(format!("/proc/{}/task/{}/status", self.pid, tid)).ok()?;
        let mut state = '?';
        let mut tracer = -1;
        let (mut sp, mut shp) = (0, 0);
        for l in s.lines() {
            if let Some(r) = l.strip_prefix("State:\t") {
                state = r.chars().next().unwrap_or('?');
            } else if let Some(r) = l.strip_prefix("TracerPid:\t") {
                tracer = r.trim().parse().unwrap_or(-1);
            } else if let Some(r) = l.strip_prefix("SigPnd:\t") {
                sp = u64::from_str_radix(r.trim(), 16).unwrap_or(0);
            } else if let Some(r) = l.strip_prefix("ShdPnd:\t") {
                shp = u64::from_str_radix(r.trim(), 16).unwrap_or(0);
            }
        }
        Some((state, tracer, sp, shp))
    }

    pub fn alive(&mut self) -> bool {
        match self.child.as_mut() {
            Some(c) => matches!(c.try_wait(), Ok(None)),
            None => false,
        }
    }

    pub fn kill(&mut self) {
        unsafe {
            libc::kill(self.pid, libc::SIGKILL);
        }
        if let Some(mut c) = self.child.take() {
            // If a (broken) writer left threads of the target ptrace-attached to this thread, the dead
            // threads stay zombies until their tracer reaps them, and the leader cannot be reaped
            // before that: reap whatever we are the tracer of, never block.
            let t0 = std::time::Instant::now();
            loop {
                for tid in self.manifest.tids.iter().chain(std::iter::once(&self.pid)) {
                    unsafe {
                        libc::waitpid(*tid, std::ptr::null_mut(), libc::__WALL | libc::WNOHANG);
                    }
                }
                match c.try_wait() {
                    Ok(Some(_)) | Err(_) => break,
                    Ok(None) => {}
                }
                if t0.elapsed().as_secs() > 10 {
                    break;
                }
                std::thread::sleep(std::time::Duration::from_millis(1));
            }
        }
    }
}

impl Drop for Target {
    fn drop(&mut self) {
        self.kill();
        if !self.keep_dir {
            let _ = std::fs::remove_dir_all(&self.dir);
        }
    }
}

use std::os::unix::ffi::OsStrExt;
