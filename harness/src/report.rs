//! Per-stage result record. `vh` writes one of these per run; the python driver `check`
//! merges the stages of a check into evidence/<id>.json and prints VIOLATION lines.

use serde_json::{json, Map, Value};
use std::collections::{BTreeMap, BTreeSet};

pub struct Report {
    pub property: String,
    pub stage: String,
    pub tier: String,
    pub seed: u64,
    pub rule: String,
    pub evaluations: u64,
    distinct: BTreeSet<u64>,
    pub samples: Vec<Value>,
    pub max_samples: usize,
    pub counters: BTreeMap<String, u64>,
    pub violations: Vec<Value>,
    pub max_violations: usize,
    pub violations_total: u64,
    pub inconclusive: Vec<String>,
    pub exhaustive: Option<bool>,
    pub notes: Vec<String>,
    /// minimum observation counts: (counter name, minimum). A run that misses one is a
    /// harness error (exit 2), never a pass.
    pub required: Vec<(String, u64)>,
    start: std::time::Instant,
}

impl Report {
    pub fn new(property: &str, stage: &str, tier: &str, seed: u64) -> Self {
        Report {
            property: property.to_string(),
            stage: stage.to_string(),
            tier: tier.to_string(),
            seed,
            rule: String::new(),
            evaluations: 0,
            distinct: BTreeSet::new(),
            samples: Vec::new(),
            max_samples: 6,
            counters: BTreeMap::new(),
            violations: Vec::new(),
            max_violations: 20,
            violations_total: 0,
            inconclusive: Vec::new(),
            exhaustive: None,
            notes: Vec::new(),
            required: Vec::new(),
            start: std::time::Instant::now(),
        }
    }

    /// Count one evaluated case. `descriptor` identifies the case (hashed for the
    /// distinct count); `nontrivial` is the per-check rule.
    pub fn case(&mut self, descriptor: u64, nontrivial: bool) {
        self.evaluations += 1;
        if nontrivial {
            self.distinct.insert(descriptor);
        }
    }

    pub fn sample(&mut self, v: Value) {
        if self.samples.len() < self.max_samples {
            self.samples.push(v);
        }
    }

    pub fn count(&mut self, name: &str, n: u64) {
        *self.counters.entry(name.to_string()).or_insert(0) += n;
    }

    pub fn counter(&self, name: &str) -> u64 {
        self.counters.get(name).copied().unwrap_or(0)
    }

    pub fn require(&mut self, name: &str, min: u64) {
        self.required.push((name.to_string(), min));
    }

    /// Record a violation. `sig` is the exact signature used by the known-findings matcher:
    /// property + failing call-site / input class. `detail` is the witness.
    pub fn violation(&mut self, sig: &str, detail: Value) {
        self.violations_total += 1;
        // keep the first witness of every distinct signature, and a bounded number overall
        let already = self
            .violations
            .iter()
            .filter(|v| v["sig"].as_str() == Some(sig))
            .count();
        if already < 2 && self.violations.len() < self.max_violations {
            self.violations.push(json!({"sig": sig, "detail": detail}));
        }
        *self
            .counters
            .entry(format!("violation[{sig}]"))
            .or_insert(0) += 1;
    }

    pub fn inconclusive(&mut self, what: String) {
        if self.inconclusive.len() < 50 {
            self.inconclusive.push(what);
        }
        self.count("inconclusive", 1);
    }

    pub fn note(&mut self, s: &str) {
        self.notes.push(s.to_string());
    }

    pub fn distinct_count(&self) -> u64 {
        self.distinct.len() as u64
    }

    pub fn to_json(&self) -> Value {
        let mut m = Map::new();
        m.insert("property".into(), json!(self.property));
        m.insert("stage".into(), json!(self.stage));
        m.insert("tier".into(), json!(self.tier));
        m.insert("seed".into(), json!(self.seed));
        m.insert("rule".into(), json!(self.rule));
        m.insert("evaluations".into(), json!(self.evaluations));
        m.insert("distinct_nontrivial".into(), json!(self.distinct.len()));
        m.insert("samples".into(), json!(self.samples));
        m.insert("counters".into(), json!(self.counters));
        m.insert("violations".into(), json!(self.violations));
        m.insert("violations_total".into(), json!(self.violations_total));
        m.insert("inconclusive".into(), json!(self.inconclusive));
        if let Some(e) = self.exhaustive {
            m.insert("exhaustive".into(), json!(e));
        }
        m.insert("notes".into(), json!(self.notes));
        let missing: Vec<String> = self
            .required
            .iter()
            .filter(|(n, min)| self.counter(n) < *min)
            .map(|(n, min)| format!("{n}: observed {} < required {min}", self.counter(n)))
            .collect();
        m.insert("missing_observations".into(), json!(missing));
        m.insert(
            "wall_s".into(),
            json!(self.start.elapsed().as_secs_f64()),
        );
        Value::Object(m)
    }

    /// Write the stage file and return the process exit code:
    /// 0 held, 1 violations present, 2 harness error (observed too little).
    pub fn finish(&self, out: &str) -> i32 {
        let v = self.to_json();
        let text = serde_json::to_string_pretty(&v).unwrap();
        if let Err(e) = std::fs::write(out, &text) {
            eprintln!("vh: cannot write {out}: {e}");
            return 2;
        }
        let missing = v["missing_observations"].as_array().map(|a| a.len()).unwrap_or(0);
        eprintln!(
            "vh: {} stage={} tier={} seed={} evaluations={} distinct={} violations={} inconclusive={} wall={:.1}s",
            self.property,
            self.stage,
            self.tier,
            self.seed,
            self.evaluations,
            self.distinct.len(),
            self.violations_total,
            self.inconclusive.len(),
            self.start.elapsed().as_secs_f64()
        );
        if self.violations_total > 0 {
            1
        } else if missing > 0 {
            eprintln!("vh: missing observations: {}", v["missing_observations"]);
            2
        } else {
            0
        }
    }
}
