//! Strict minidump decoder + extent checker, written from the format definition (struct sizes
//! and field offsets hard-coded), independent of the `minidump` / `minidump-common` crates.
//! It decodes an image OR A PREFIX of one into typed extents and a canonical semantic form, and
//! is deliberately intolerant.

use std::collections::BTreeMap;

pub const ST_THREAD_LIST: u32 = 3;
pub const ST_MODULE_LIST: u32 = 4;
pub const ST_MEMORY_LIST: u32 = 5;
pub const ST_EXCEPTION: u32 = 6;
pub const ST_SYSTEM_INFO: u32 = 7;
pub const ST_HANDLE_DATA: u32 = 12;
pub const ST_MEMORY_INFO_LIST: u32 = 16;
pub const ST_THREAD_NAMES: u32 = 24;
pub const ST_LINUX_CPU_INFO: u32 = 0x4767_0003;
pub const ST_LINUX_PROC_STATUS: u32 = 0x4767_0004;
pub const ST_LINUX_LSB_RELEASE: u32 = 0x4767_0005;
pub const ST_LINUX_CMD_LINE: u32 = 0x4767_0006;
pub const ST_LINUX_ENVIRON: u32 = 0x4767_0007;
pub const ST_LINUX_AUXV: u32 = 0x4767_0008;
pub const ST_LINUX_MAPS: u32 = 0x4767_0009;
pub const ST_LINUX_DSO_DEBUG: u32 = 0x4767_000A;
pub const ST_MOZ_LINUX_LIMITS: u32 = 0x4d7a_0003;
pub const ST_MOZ_SOFT_ERRORS: u32 = 0x4d7a_0004;

pub const CONTEXT_SIZE: u64 = 1232;

#[derive(Clone, Debug, PartialEq, Eq)]
pub enum Kind {
    Header,
    Directory,
    Stream(u32),
    Stack(u32),
    MemBlob,
    ThreadCtx(u32),
    ExcCtx,
    Str,
    CvRecord,
    LinkMapArray,
}

#[derive(Clone, Debug)]
pub struct Extent {
    pub off: u64,
    pub len: u64,
    pub kind: Kind,
    pub what: String,
}

#[derive(Clone, Debug, Default, PartialEq)]
pub struct Context {
    pub context_flags: u32,
    pub mx_csr: u32,
    pub cs: u16,
    pub ds: u16,
    pub es: u16,
    pub fs: u16,
    pub gs: u16,
    pub ss: u16,
    pub eflags: u32,
    pub dr: [u64; 6],
    /// rax rcx rdx rbx rsp rbp rsi rdi r8..r15 (format order)
    pub gpr: [u64; 16],
    pub rip: u64,
    /// XMM_SAVE_AREA32 (512 bytes)
    pub float_save: Vec<u8>,
    pub raw: Vec<u8>,
}

impl Context {
    pub fn rax(&self) -> u64 { self.gpr[0] }
    pub fn rcx(&self) -> u64 { self.gpr[1] }
    pub fn rdx(&self) -> u64 { self.gpr[2] }
    pub fn rbx(&self) -> u64 { self.gpr[3] }
    pub fn rsp(&self) -> u64 { self.gpr[4] }
    pub fn rbp(&self) -> u64 { self.gpr[5] }
    pub fn rsi(&self) -> u64 { self.gpr[6] }
    pub fn rdi(&self) -> u64 { self.gpr[7] }
    pub fn r(&self, n: usize) -> u64 { self.gpr[n] } // n = 8..15
    pub fn fcw(&self) -> u16 { u16::from_le_bytes([self.float_save[0], self.float_save[1]]) }
    pub fn fsw(&self) -> u16 { u16::from_le_bytes([self.float_save[2], self.float_save[3]]) }
    pub fn fs_mxcsr(&self) -> u32 { u32::from_le_bytes(self.float_save[24..28].try_into().unwrap()) }
    pub fn st(&self, i: usize) -> &[u8] { &self.float_save[32 + 16 * i..32 + 16 * i + 16] }
    pub fn xmm(&self, i: usize) -> &[u8] { &self.float_save[160 + 16 * i..160 + 16 * i + 16] }
}

#[derive(Clone, Debug, Default)]
pub struct Thread {
    pub tid: u32,
    pub suspend_count: u32,
    pub priority_class: u32,
    pub priority: u32,
    pub teb: u64,
    pub stack_start: u64,
    pub stack_size: u32,
    pub stack_rva: u32,
    pub ctx_size: u32,
    pub ctx_rva: u32,
    pub ctx: Option<Context>,
}

#[derive(Clone, Debug, Default)]
pub struct Module {
    pub base: u64,
    pub size: u32,
    pub checksum: u32,
    pub time_date_stamp: u32,
    pub name: Option<String>,
    pub version: [u32; 13],
    pub cv: Vec<u8>,
    pub cv_rva: u32,
    pub misc: (u32, u32),
}

#[derive(Clone, Debug, Default)]
pub struct MemDesc {
    pub start: u64,
    pub size: u32,
    pub rva: u32,
}

#[derive(Clone, Debug, Default)]
pub struct Exception {
    pub thread_id: u32,
    pub code: u32,
    pub flags: u32,
    pub record: u64,
    pub address: u64,
    pub number_parameters: u32,
    pub information: [u64; 15],
    pub ctx_size: u32,
    pub ctx_rva: u32,
    pub ctx: Option<Context>,
}

#[derive(Clone, Debug, Default)]
pub struct SysInfo {
    pub processor_architecture: u16,
    pub processor_level: u16,
    pub processor_revision: u16,
    pub number_of_processors: u8,
    pub product_type: u8,
    pub major: u32,
    pub minor: u32,
    pub build: u32,
    pub platform_id: u32,
    pub csd_version: Option<String>,
    pub suite_mask: u16,
    pub cpu: Vec<u8>,
}

#[derive(Clone, Debug, Default, PartialEq, Eq)]
pub struct MemInfo {
    pub base: u64,
    pub alloc_base: u64,
    pub alloc_protection: u32,
    pub region_size: u64,
    pub state: u32,
    pub protection: u32,
    pub ty: u32,
}

#[derive(Clone, Debug, Default)]
pub struct Handle {
    pub handle: u64,
    pub type_name_rva: u32,
    pub object_name: Option<String>,
    pub attributes: u32,
    pub granted_access: u32,
    pub handle_count: u32,
    pub pointer_count: u32,
}

#[derive(Clone, Debug, Default)]
pub struct DsoDebug {
    pub version: u32,
    pub map_rva: u32,
    pub dso_count: u32,
    pub brk: u64,
    pub ldbase: u64,
    pub dynamic: u64,
    pub dynamic_bytes: Vec<u8>,
    /// (addr, name, ld)
    pub link_map: Vec<(u64, Option<String>, u64)>,
}

#[derive(Clone, Debug)]
pub struct DirEntry {
    pub stream_type: u32,
    pub size: u32,
    pub rva: u32,
}

#[derive(Clone, Debug, Default)]
pub struct Image {
    pub len: u64,
    pub signature: u32,
    pub version: u32,
    pub stream_count: u32,
    pub dir_rva: u32,
    pub checksum: u32,
    pub time_date_stamp: u32,
    pub flags: u64,
    pub dir: Vec<DirEntry>,
    pub threads: Option<Vec<Thread>>,
    pub modules: Option<Vec<Module>>,
    pub memory: Option<Vec<MemDesc>>,
    pub exception: Option<Exception>,
    pub sysinfo: Option<SysInfo>,
    pub meminfo: Option<Vec<MemInfo>>,
    pub names: Option<Vec<(u32, Option<String>)>>,
    pub handles: Option<Vec<Handle>>,
    pub dso: Option<DsoDebug>,
    pub raw: BTreeMap<u32, Vec<u8>>,
    pub extents: Vec<Extent>,
    /// (stable kind, message)
    pub errors: Vec<(String, String)>,
}

struct D<'a> {
    b: &'a [u8],
}
impl D<'_> {
    fn u16(&self, o: u64) -> Option<u16> {
        let o = o as usize;
        Some(u16::from_le_bytes(self.b.get(o..o + 2)?.try_into().ok()?))
    }
    fn u32(&self, o: u64) -> Option<u32> {
        let o = o as usize;
        Some(u32::from_le_bytes(self.b.get(o..o.checked_add(4)?)?.try_into().ok()?))
    }
    fn u64(&self, o: u64) -> Option<u64> {
        let o = o as usize;
        Some(u64::from_le_bytes(self.b.get(o..o.checked_add(8)?)?.try_into().ok()?))
    }
    fn bytes(&self, o: u64, n: u64) -> Option<&[u8]> {
        self.b.get(o as usize..(o.checked_add(n)?) as usize)
    }
}

pub fn decode_context(b: &[u8]) -> Option<Context> {
    if b.len() != CONTEXT_SIZE as usize {
        return None;
    }
    let d = D { b };
    let mut c = Context { context_flags: d.u32(48)?, mx_csr: d.u32(52)?, ..Default::default() };
    c.cs = d.u16(56)?;
    c.ds = d.u16(58)?;
    c.es = d.u16(60)?;
    c.fs = d.u16(62)?;
    c.gs = d.u16(64)?;
    c.ss = d.u16(66)?;
    c.eflags = d.u32(68)?;
    for i in 0..6 {
        c.dr[i] = d.u64(72 + 8 * i as u64)?;
    }
    for i in 0..16 {
        c.gpr[i] = d.u64(120 + 8 * i as u64)?;
    }
    c.rip = d.u64(248)?;
    c.float_save = b[256..768].to_vec();
    c.raw = b.to_vec();
    Some(c)
}

impl Image {
    fn err(&mut self, kind: &str, msg: String) {
        if self.errors.len() < 200 {
            self.errors.push((kind.to_string(), msg));
        }
    }
    fn ext(&mut self, off: u64, len: u64, kind: Kind, what: String) -> bool {
        let inside = off.checked_add(len).map(|e| e <= self.len).unwrap_or(false);
        if !inside {
            self.err("outside-image", format!("{what}: [{off},{off}+{len}) is not wholly inside the image of {} bytes", self.len));
        }
        self.extents.push(Extent { off, len, kind, what });
        inside
    }
    /// MINIDUMP_STRING at rva: u32 byte length (even) + UTF-16LE units
    fn string(&mut self, d: &D, rva: u64, what: &str) -> Option<String> {
        let Some(len) = d.u32(rva) else {
            self.err("outside-image", format!("{what}: string header at {rva} outside the image"));
            self.extents.push(Extent { off: rva, len: 4, kind: Kind::Str, what: what.to_string() });
            return None;
        };
        if len % 2 != 0 {
            self.err("string-odd-length", format!("{what}: string at {rva} declares odd byte length {len}"));
        }
        let ok = self.ext(rva, 4 + len as u64, Kind::Str, format!("{what} string"));
        if !ok {
            return None;
        }
        let raw = d.bytes(rva + 4, len as u64)?;
        let units: Vec<u16> = raw.chunks_exact(2).map(|c| u16::from_le_bytes([c[0], c[1]])).collect();
        match String::from_utf16(&units) {
            Ok(s) => Some(s),
            Err(_) => {
                self.err("string-not-utf16", format!("{what}: string at {rva} is not valid UTF-16"));
                None
            }
        }
    }
}

/// Decode `bytes` (a complete image, or a prefix of one when checking crash points).
pub fn decode(bytes: &[u8]) -> Image {
    let mut im = Image { len: bytes.len() as u64, ..Default::default() };
    let d = D { b: bytes };
    if bytes.len() < 32 {
        im.err("header-missing", format!("image has only {} bytes: no header", bytes.len()));
        return im;
    }
    im.signature = d.u32(0).unwrap();
    im.version = d.u32(4).unwrap();
    im.stream_count = d.u32(8).unwrap();
    im.dir_rva = d.u32(12).unwrap();
    im.checksum = d.u32(16).unwrap();
    im.time_date_stamp = d.u32(20).unwrap();
    im.flags = d.u64(24).unwrap();
    im.ext(0, 32, Kind::Header, "header".into());
    if im.signature != 0x504d_444d {
        im.err("bad-signature", format!("signature {:#x}", im.signature));
        return im;
    }
    if im.version & 0xffff != 0xa793 {
        im.err("bad-version", format!("version {:#x}", im.version));
    }
    if im.stream_count > 4096 {
        im.err("bad-stream-count", format!("stream_count {}", im.stream_count));
        return im;
    }
    let dir_ok = im.ext(im.dir_rva as u64, 12 * im.stream_count as u64, Kind::Directory, "directory".into());
    if !dir_ok {
        im.err("directory-missing", "the stream directory is not wholly present".into());
        return im;
    }
    for i in 0..im.stream_count as u64 {
        let o = im.dir_rva as u64 + 12 * i;
        im.dir.push(DirEntry { stream_type: d.u32(o).unwrap(), size: d.u32(o + 4).unwrap(), rva: d.u32(o + 8).unwrap() });
    }
    let mut seen: BTreeMap<u32, usize> = BTreeMap::new();
    let entries = im.dir.clone();
    for (i, e) in entries.iter().enumerate() {
        if e.stream_type == 0 {
            if e.size != 0 || e.rva != 0 {
                im.err("unused-entry-nonzero", format!("directory entry {i} has type 0 but size {} rva {}", e.size, e.rva));
            }
            continue;
        }
        if let Some(prev) = seen.insert(e.stream_type, i) {
            im.err("duplicate-stream-type", format!("stream type {:#x} occurs in entries {prev} and {i}", e.stream_type));
            continue;
        }
        let (rva, size) = (e.rva as u64, e.size as u64);
        let inside = im.ext(rva, size, Kind::Stream(e.stream_type), format!("stream {:#x}", e.stream_type));
        if !inside {
            continue;
        }
        match e.stream_type {
            ST_THREAD_LIST => {
                let Some(n) = d.u32(rva) else { im.err("stream-size", "thread list too short".into()); continue };
                if size != 4 + 48 * n as u64 {
                    im.err("stream-size", format!("thread list: size {size} != 4 + 48*{n}"));
                    continue;
                }
                let mut v = Vec::new();
                for k in 0..n as u64 {
                    let o = rva + 4 + 48 * k;
                    let mut t = Thread {
                        tid: d.u32(o).unwrap(),
                        suspend_count: d.u32(o + 4).unwrap(),
                        priority_class: d.u32(o + 8).unwrap(),
                        priority: d.u32(o + 12).unwrap(),
                        teb: d.u64(o + 16).unwrap(),
                        stack_start: d.u64(o + 24).unwrap(),
                        stack_size: d.u32(o + 32).unwrap(),
                        stack_rva: d.u32(o + 36).unwrap(),
                        ctx_size: d.u32(o + 40).unwrap(),
                        ctx_rva: d.u32(o + 44).unwrap(),
                        ctx: None,
                    };
                    if t.stack_size > 0 {
                        im.ext(t.stack_rva as u64, t.stack_size as u64, Kind::Stack(t.tid), format!("stack of thread {}", t.tid));
                    }
                    if t.ctx_size as u64 != CONTEXT_SIZE {
                        im.err("context-size", format!("thread {}: context size {} != {CONTEXT_SIZE}", t.tid, t.ctx_size));
                    }
                    if im.ext(t.ctx_rva as u64, t.ctx_size as u64, Kind::ThreadCtx(t.tid), format!("context of thread {}", t.tid)) {
                        t.ctx = d.bytes(t.ctx_rva as u64, t.ctx_size as u64).and_then(decode_context);
                    }
                    v.push(t);
                }
                im.threads = Some(v);
            }
            ST_MODULE_LIST => {
                let Some(n) = d.u32(rva) else { im.err("stream-size", "module list too short".into()); continue };
                if size != 4 + 108 * n as u64 {
                    im.err("stream-size", format!("module list: size {size} != 4 + 108*{n}"));
                    continue;
                }
                let mut v = Vec::new();
                for k in 0..n as u64 {
                    let o = rva + 4 + 108 * k;
                    let mut m = Module { base: d.u64(o).unwrap(), size: d.u32(o + 8).unwrap(), checksum: d.u32(o + 12).unwrap(), time_date_stamp: d.u32(o + 16).unwrap(), ..Default::default() };
                    let name_rva = d.u32(o + 20).unwrap();
                    for j in 0..13 {
                        m.version[j] = d.u32(o + 24 + 4 * j as u64).unwrap();
                    }
                    let (cv_size, cv_rva) = (d.u32(o + 76).unwrap(), d.u32(o + 80).unwrap());
                    m.misc = (d.u32(o + 84).unwrap(), d.u32(o + 88).unwrap());
                    m.cv_rva = cv_rva;
                    m.name = im.string(&d, name_rva as u64, &format!("module {k} name"));
                    if cv_size > 0 {
                        if im.ext(cv_rva as u64, cv_size as u64, Kind::CvRecord, format!("module {k} cv record")) {
                            m.cv = d.bytes(cv_rva as u64, cv_size as u64).unwrap().to_vec();
                            if m.cv.len() < 4 || &m.cv[..4] != b"LEpB" {
                                im.err("cv-signature", format!("module {k}: cv record does not start with the ELF build-id signature"));
                            }
                        }
                    } else if cv_rva != 0 {
                        im.err("cv-empty-nonzero-rva", format!("module {k}: empty cv record with rva {cv_rva}"));
                    }
                    if m.misc != (0, 0) {
                        im.err("misc-record", format!("module {k}: misc record {:?} not empty", m.misc));
                    }
                    v.push(m);
                }
                im.modules = Some(v);
            }
            ST_MEMORY_LIST => {
                let Some(n) = d.u32(rva) else { im.err("stream-size", "memory list too short".into()); continue };
                if size != 4 + 16 * n as u64 {
                    im.err("stream-size", format!("memory list: size {size} != 4 + 16*{n}"));
                    continue;
                }
                let mut v = Vec::new();
                for k in 0..n as u64 {
                    let o = rva + 4 + 16 * k;
                    let m = MemDesc { start: d.u64(o).unwrap(), size: d.u32(o + 8).unwrap(), rva: d.u32(o + 12).unwrap() };
                    if m.size > 0 {
                        im.ext(m.rva as u64, m.size as u64, Kind::MemBlob, format!("memory region {k} @{:#x}", m.start));
                    }
                    v.push(m);
                }
                im.memory = Some(v);
            }
            ST_EXCEPTION => {
                if size != 168 {
                    im.err("stream-size", format!("exception stream: size {size} != 168"));
                    continue;
                }
                let o = rva;
                let mut x = Exception {
                    thread_id: d.u32(o).unwrap(),
                    code: d.u32(o + 8).unwrap(),
                    flags: d.u32(o + 12).unwrap(),
                    record: d.u64(o + 16).unwrap(),
                    address: d.u64(o + 24).unwrap(),
                    number_parameters: d.u32(o + 32).unwrap(),
                    ctx_size: d.u32(o + 160).unwrap(),
                    ctx_rva: d.u32(o + 164).unwrap(),
                    ..Default::default()
                };
                for j in 0..15 {
                    x.information[j] = d.u64(o + 40 + 8 * j as u64).unwrap();
                }
                if x.ctx_size != 0 || x.ctx_rva != 0 {
                    if x.ctx_size as u64 != CONTEXT_SIZE {
                        im.err("context-size", format!("exception context size {} != {CONTEXT_SIZE}", x.ctx_size));
                    }
                    if im.ext(x.ctx_rva as u64, x.ctx_size as u64, Kind::ExcCtx, "exception context".into()) {
                        x.ctx = d.bytes(x.ctx_rva as u64, x.ctx_size as u64).and_then(decode_context);
                    }
                }
                im.exception = Some(x);
            }
            ST_SYSTEM_INFO => {
                if size != 56 {
                    im.err("stream-size", format!("system info: size {size} != 56"));
                    continue;
                }
                let o = rva;
                let mut s = SysInfo {
                    processor_architecture: d.u16(o).unwrap(),
                    processor_level: d.u16(o + 2).unwrap(),
                    processor_revision: d.u16(o + 4).unwrap(),
                    number_of_processors: bytes[(o + 6) as usize],
                    product_type: bytes[(o + 7) as usize],
                    major: d.u32(o + 8).unwrap(),
                    minor: d.u32(o + 12).unwrap(),
                    build: d.u32(o + 16).unwrap(),
                    platform_id: d.u32(o + 20).unwrap(),
                    suite_mask: d.u16(o + 28).unwrap(),
                    cpu: d.bytes(o + 32, 24).unwrap().to_vec(),
                    ..Default::default()
                };
                let csd = d.u32(o + 24).unwrap();
                s.csd_version = im.string(&d, csd as u64, "OS version (csd)");
                im.sysinfo = Some(s);
            }
            ST_MEMORY_INFO_LIST => {
                if size < 16 {
                    im.err("stream-size", "memory info list shorter than its header".into());
                    continue;
                }
                let (sh, se, n) = (d.u32(rva).unwrap(), d.u32(rva + 4).unwrap(), d.u64(rva + 8).unwrap());
                if sh != 16 || se != 48 {
                    im.err("meminfo-header", format!("memory info header sizes {sh}/{se} != 16/48"));
                    continue;
                }
                if n > (1 << 24) || size != 16 + 48 * n {
                    im.err("stream-size", format!("memory info list: size {size} != 16 + 48*{n}"));
                    continue;
                }
                let mut v = Vec::new();
                for k in 0..n {
                    let o = rva + 16 + 48 * k;
                    v.push(MemInfo {
                        base: d.u64(o).unwrap(),
                        alloc_base: d.u64(o + 8).unwrap(),
                        alloc_protection: d.u32(o + 16).unwrap(),
                        region_size: d.u64(o + 24).unwrap(),
                        state: d.u32(o + 32).unwrap(),
                        protection: d.u32(o + 36).unwrap(),
                        ty: d.u32(o + 40).unwrap(),
                    });
                }
                im.meminfo = Some(v);
            }
            ST_THREAD_NAMES => {
                let Some(n) = d.u32(rva) else { im.err("stream-size", "thread names too short".into()); continue };
                if size != 4 + 12 * n as u64 {
                    im.err("stream-size", format!("thread names: size {size} != 4 + 12*{n}"));
                    continue;
                }
                let mut v = Vec::new();
                for k in 0..n as u64 {
                    let o = rva + 4 + 12 * k;
                    let tid = d.u32(o).unwrap();
                    let nrva = d.u64(o + 4).unwrap();
                    let name = im.string(&d, nrva, &format!("thread name entry {k} (tid {tid})"));
                    v.push((tid, name));
                }
                im.names = Some(v);
            }
            ST_HANDLE_DATA => {
                if size < 16 {
                    im.err("stream-size", "handle data stream shorter than its header".into());
                    continue;
                }
                let (sh, sd, n) = (d.u32(rva).unwrap(), d.u32(rva + 4).unwrap(), d.u32(rva + 8).unwrap());
                if sh != 16 || sd != 32 {
                    im.err("handle-header", format!("handle data header sizes {sh}/{sd} != 16/32"));
                    continue;
                }
                if size != 16 + 32 * n as u64 {
                    im.err("stream-size", format!("handle data: size {size} != 16 + 32*{n}"));
                    continue;
                }
                let mut v = Vec::new();
                for k in 0..n as u64 {
                    let o = rva + 16 + 32 * k;
                    let mut h = Handle {
                        handle: d.u64(o).unwrap(),
                        type_name_rva: d.u32(o + 8).unwrap(),
                        attributes: d.u32(o + 16).unwrap(),
                        granted_access: d.u32(o + 20).unwrap(),
                        handle_count: d.u32(o + 24).unwrap(),
                        pointer_count: d.u32(o + 28).unwrap(),
                        ..Default::default()
                    };
                    let on = d.u32(o + 12).unwrap();
                    if h.type_name_rva != 0 {
                        im.string(&d, h.type_name_rva as u64, &format!("handle {} type name", h.handle));
                    }
                    h.object_name = im.string(&d, on as u64, &format!("handle {} object name", h.handle));
                    v.push(h);
                }
                im.handles = Some(v);
            }
            ST_LINUX_DSO_DEBUG => {
                if size < 36 {
                    im.err("stream-size", format!("dso debug stream: size {size} < 36"));
                    continue;
                }
                let o = rva;
                let mut s = DsoDebug {
                    version: d.u32(o).unwrap(),
                    map_rva: d.u32(o + 4).unwrap(),
                    dso_count: d.u32(o + 8).unwrap(),
                    brk: d.u64(o + 12).unwrap(),
                    ldbase: d.u64(o + 20).unwrap(),
                    dynamic: d.u64(o + 28).unwrap(),
                    dynamic_bytes: d.bytes(o + 36, size - 36).unwrap().to_vec(),
                    link_map: Vec::new(),
                };
                if (size - 36) % 16 != 0 {
                    im.err("stream-size", format!("dso debug stream: dynamic section bytes {} not a multiple of 16", size - 36));
                }
                if s.dso_count > 0 {
                    if s.dso_count > 100_000 {
                        im.err("dso-count", format!("dso_count {}", s.dso_count));
                    } else if im.ext(s.map_rva as u64, 20 * s.dso_count as u64, Kind::LinkMapArray, "link map array".into()) {
                        for k in 0..s.dso_count as u64 {
                            let lo = s.map_rva as u64 + 20 * k;
                            let addr = d.u64(lo).unwrap();
                            let nrva = d.u32(lo + 8).unwrap();
                            let ld = d.u64(lo + 12).unwrap();
                            let name = im.string(&d, nrva as u64, &format!("link map {k} name"));
                            s.link_map.push((addr, name, ld));
                        }
                    }
                }
                im.dso = Some(s);
            }
            ST_LINUX_CPU_INFO | ST_LINUX_PROC_STATUS | ST_LINUX_LSB_RELEASE | ST_LINUX_CMD_LINE | ST_LINUX_ENVIRON | ST_LINUX_AUXV | ST_LINUX_MAPS | ST_MOZ_LINUX_LIMITS | ST_MOZ_SOFT_ERRORS => {
                im.raw.insert(e.stream_type, d.bytes(rva, size).unwrap().to_vec());
            }
            other => {
                im.err("unknown-stream-type", format!("directory entry {i}: unknown stream type {other:#x}"));
            }
        }
    }
    check_overlaps(&mut im);
    im
}

fn sanctioned(a: &Extent, b: &Extent, im: &Image) -> bool {
    if a.off != b.off || a.len != b.len {
        return false;
    }
    match (&a.kind, &b.kind) {
        (Kind::Stack(_), Kind::MemBlob) | (Kind::MemBlob, Kind::Stack(_)) => true,
        (Kind::ThreadCtx(t), Kind::ExcCtx) | (Kind::ExcCtx, Kind::ThreadCtx(t)) => im.exception.as_ref().map(|x| x.thread_id == *t).unwrap_or(false),
        _ => false,
    }
}

fn check_overlaps(im: &mut Image) {
    let mut ex: Vec<Extent> = im.extents.iter().filter(|e| e.len > 0).cloned().collect();
    ex.sort_by_key(|e| (e.off, e.len));
    let mut errs = Vec::new();
    // sweep: compare each extent with the following ones that start before it ends
    for i in 0..ex.len() {
        let end = ex[i].off.saturating_add(ex[i].len);
        let mut j = i + 1;
        while j < ex.len() && ex[j].off < end {
            if !sanctioned(&ex[i], &ex[j], im) {
                // a stack may be named by the thread AND by exactly one memory descriptor; a third
                // extent with the same range is reported through one of its pairs
                errs.push(format!(
                    "`{}` [{},+{}) overlaps `{}` [{},+{})",
                    ex[i].what, ex[i].off, ex[i].len, ex[j].what, ex[j].off, ex[j].len
                ));
            }
            j += 1;
            if errs.len() > 20 {
                break;
            }
        }
    }
    for e in errs {
        im.err("overlap", e);
    }
}

impl Image {
    pub fn has_stream(&self, t: u32) -> bool {
        self.dir.iter().any(|e| e.stream_type == t)
    }
    pub fn entry(&self, t: u32) -> Option<&DirEntry> {
        self.dir.iter().find(|e| e.stream_type == t)
    }
    pub fn error_kinds(&self) -> Vec<String> {
        let mut v: Vec<String> = self.errors.iter().map(|e| e.0.clone()).collect();
        v.sort();
        v.dedup();
        v
    }
    pub fn soft_errors(&self) -> Option<serde_json::Value> {
        let raw = self.raw.get(&ST_MOZ_SOFT_ERRORS)?;
        serde_json::from_slice(raw).ok()
    }
}
