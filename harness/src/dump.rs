//! Running the real `MinidumpWriter::dump` with a generated option set, in-process (panics are
//! caught) or in a watchdogged worker subprocess (for totality checks).

use crate::dest::Dest;
use minidump_writer::app_memory::AppMemory;
use minidump_writer::crash_context::CrashContext;
use minidump_writer::maps_reader::{MappingEntry, MappingInfo, SystemMappingInfo};
use minidump_writer::minidump_writer::{DirectAuxvDumpInfo, MinidumpWriter};
use serde::{Deserialize, Serialize};
use std::io::{Seek, Write};

// libc greg indices (hard-coded: the oracle's own table)
pub const REG_R8: usize = 0;
pub const REG_R9: usize = 1;
pub const REG_R10: usize = 2;
pub const REG_R11: usize = 3;
pub const REG_R12: usize = 4;
pub const REG_R13: usize = 5;
pub const REG_R14: usize = 6;
pub const REG_R15: usize = 7;
pub const REG_RDI: usize = 8;
pub const REG_RSI: usize = 9;
pub const REG_RBP: usize = 10;
pub const REG_RBX: usize = 11;
pub const REG_RDX: usize = 12;
pub const REG_RAX: usize = 13;
pub const REG_RCX: usize = 14;
pub const REG_RSP: usize = 15;
pub const REG_RIP: usize = 16;
pub const REG_EFL: usize = 17;
pub const REG_CSGSFS: usize = 18;

#[derive(Serialize, Deserialize, Clone, Debug, Default)]
pub struct CrashSpec {
    /// 23 general registers in the kernel's gregs order
    pub gregs: Vec<i64>,
    /// 512 bytes of FXSAVE-format floating point state (fpregset_t)
    pub fpstate: Vec<u8>,
    pub signo: u32,
    pub code: i32,
    pub addr: u64,
    pub tid: i32,
    /// remaining siginfo / ucontext bytes are filled from this seed (0 = zeros)
    pub noise_seed: u64,
}

#[derive(Serialize, Deserialize, Clone, Debug, Default)]
pub struct UserMap {
    pub start: u64,
    pub size: u64,
    pub offset: u64,
    pub name: String,
    pub id: Vec<u8>,
}

#[derive(Serialize, Deserialize, Clone, Debug, Default)]
pub struct DumpOpts {
    pub pid: i32,
    pub blamed: i32,
    pub crash: Option<CrashSpec>,
    pub size_limit: Option<u64>,
    pub sanitize: bool,
    pub skip_unreferenced: bool,
    pub principal: Option<u64>,
    pub app_memory: Vec<(u64, u64)>,
    pub user_mappings: Vec<UserMap>,
    /// phnum, phdr, gate, entry
    pub direct_auxv: Option<[u64; 4]>,
    pub stop_timeout_ms: Option<u64>,
    /// finer-grained stop timeout (microseconds); wins over `stop_timeout_ms` when set
    #[serde(default)]
    pub stop_timeout_us: Option<u64>,
    pub failspots: Vec<String>,
    pub name_faults: Vec<i32>,
    /// (worker only) SIGKILL the target when this hook point is reached: e.g. ("Flushed", 3)
    #[serde(default)]
    pub kill_at: Option<(String, u32)>,
    /// (worker only) bind-mount this file over /proc/cpuinfo in a private mount namespace
    #[serde(default)]
    pub cpuinfo_override: Option<String>,
    /// (worker only) write the returned image here
    #[serde(default)]
    pub image_out: Option<String>,
}

impl DumpOpts {
    pub fn new(pid: i32, blamed: i32) -> Self {
        DumpOpts { pid, blamed, stop_timeout_ms: Some(10_000), ..Default::default() }
    }
    pub fn describe(&self) -> String {
        format!(
            "crash={} limit={:?} sanitize={} skip={} principal={:?} app={} user={} auxv={} failspots={:?} name_faults={}",
            self.crash.is_some(),
            self.size_limit,
            self.sanitize,
            self.skip_unreferenced,
            self.principal.map(|p| format!("{p:#x}")),
            self.app_memory.len(),
            self.user_mappings.len(),
            self.direct_auxv.is_some(),
            self.failspots,
            self.name_faults.len()
        )
    }
}

pub fn build_crash_context(c: &CrashSpec, pid: i32) -> CrashContext {
    // build in an aligned zeroed struct (from_bytes on an unaligned Vec is UB in the dependency)
    let mut cc: crash_context::CrashContext = unsafe { std::mem::zeroed() };
    if c.noise_seed != 0 {
        let mut rng = crate::rng::Rng::new(c.noise_seed);
        let size = std::mem::size_of::<crash_context::CrashContext>();
        let bytes = rng.bytes(size);
        unsafe {
            std::ptr::copy_nonoverlapping(bytes.as_ptr(), (&mut cc as *mut crash_context::CrashContext).cast::<u8>(), size);
        }
        cc.context.uc_mcontext.fpregs = std::ptr::null_mut();
        cc.context.uc_stack.ss_sp = std::ptr::null_mut();
    }
    for i in 0..23 {
        cc.context.uc_mcontext.gregs[i] = c.gregs.get(i).copied().unwrap_or(0);
    }
    if c.fpstate.len() == 512 {
        unsafe {
            std::ptr::copy_nonoverlapping(c.fpstate.as_ptr(), (&mut cc.float_state as *mut crash_context::fpregset_t).cast::<u8>(), 512);
        }
    }
    cc.siginfo.ssi_signo = c.signo;
    cc.siginfo.ssi_code = c.code;
    cc.siginfo.ssi_addr = c.addr;
    cc.pid = pid;
    cc.tid = c.tid;
    CrashContext { inner: cc }
}

pub struct FailGuard {
    _client: Option<failspot::testing::Client<'static, minidump_writer::FailSpotName>>,
}

pub fn configure(o: &DumpOpts) -> (MinidumpWriter, FailGuard) {
    let mut w = MinidumpWriter::new(o.pid, o.blamed);
    if let Some(c) = &o.crash {
        w.set_crash_context(build_crash_context(c, o.pid));
    }
    if let Some(l) = o.size_limit {
        w.set_minidump_size_limit(l);
    }
    if o.sanitize {
        w.sanitize_stack();
    }
    if o.skip_unreferenced {
        w.skip_stacks_if_mapping_unreferenced();
    }
    if let Some(p) = o.principal {
        w.set_principal_mapping_address(p as usize);
    }
    if !o.app_memory.is_empty() {
        w.set_app_memory(o.app_memory.iter().map(|(p, l)| AppMemory { ptr: *p as usize, length: *l as usize }).collect());
    }
    if !o.user_mappings.is_empty() {
        w.set_user_mapping_list(
            o.user_mappings
                .iter()
                .map(|u| MappingEntry {
                    mapping: MappingInfo {
                        start_address: u.start as usize,
                        size: u.size as usize,
                        system_mapping_info: SystemMappingInfo { start_address: u.start as usize, end_address: (u.start + u.size) as usize },
                        offset: u.offset as usize,
                        permissions: procfs_core::process::MMPermissions::READ | procfs_core::process::MMPermissions::EXECUTE | procfs_core::process::MMPermissions::PRIVATE,
                        name: Some(u.name.clone().into()),
                    },
                    identifier: u.id.clone(),
                })
                .collect(),
        );
    }
    if let Some(a) = o.direct_auxv {
        w.set_direct_auxv_dump_info(DirectAuxvDumpInfo { program_header_count: a[0], program_header_address: a[1], linux_gate_address: a[2], entry_address: a[3] });
    }
    if let Some(ms) = o.stop_timeout_ms {
        w.stop_timeout(std::time::Duration::from_millis(ms));
    }
    if let Some(us) = o.stop_timeout_us {
        w.stop_timeout(std::time::Duration::from_micros(us));
    }
    let guard = set_faults(o);
    (w, guard)
}

pub fn set_faults(o: &DumpOpts) -> FailGuard {
    use minidump_writer::FailSpotName as F;
    let client = if o.failspots.is_empty() {
        None
    } else {
        let mut c = F::testing_client();
        for f in &o.failspots {
            let n = match f.as_str() {
                "StopProcess" => F::StopProcess,
                "FillMissingAuxvInfo" => F::FillMissingAuxvInfo,
                "ThreadName" => F::ThreadName,
                "SuspendThreads" => F::SuspendThreads,
                "CpuInfoFileOpen" => F::CpuInfoFileOpen,
                other => panic!("unknown failspot {other}"),
            };
            c.set_enabled(n, true);
        }
        Some(c)
    };
    if o.name_faults.is_empty() {
        minidump_writer::verif_hooks::set_thread_name_fault(None);
    } else {
        let set: std::collections::HashSet<i32> = o.name_faults.iter().copied().collect();
        minidump_writer::verif_hooks::set_thread_name_fault(Some(Box::new(move |tid| set.contains(&tid))));
    }
    FailGuard { _client: client }
}

impl Drop for FailGuard {
    fn drop(&mut self) {
        minidump_writer::verif_hooks::set_thread_name_fault(None);
    }
}

#[derive(Debug)]
pub enum Outcome {
    Ok(Vec<u8>),
    Err(String),
    Panic { message: String, location: String },
}

/// One dump, in-process, into `dest`. Panics are caught and reported with their location.
/// NOTE: failspots / hooks are process-global: callers serialise dumps (see `DUMP_LOCK`).
pub fn dump_into<W: Write + Seek>(o: &DumpOpts, dest: &mut W) -> Outcome {
    let (mut w, _guard) = configure(o);
    dump_with(&mut w, dest)
}

pub fn dump_with<W: Write + Seek>(w: &mut MinidumpWriter, dest: &mut W) -> Outcome {
    let _w = crate::util::watch_call("dump request", None);
    let r = std::panic::catch_unwind(std::panic::AssertUnwindSafe(|| w.dump(dest)));
    match r {
        Ok(Ok(v)) => Outcome::Ok(v),
        Ok(Err(e)) => Outcome::Err(format!("{e:?}")),
        Err(p) => Outcome::Panic { message: crate::util::panic_message(&p), location: crate::util::short_loc(&crate::util::last_panic_loc()) },
    }
}

pub fn dump(o: &DumpOpts) -> (Outcome, Vec<u8>) {
    let mut d = Dest::plain();
    let out = dump_into(o, &mut d);
    (out, d.data())
}

/// failspots, the sync hook and the name-fault hook are process-global state
pub static DUMP_LOCK: std::sync::Mutex<()> = std::sync::Mutex::new(());
