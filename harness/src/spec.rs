//! Target specification shared between the harness (which generates it) and `vtarget` (which
//! builds the requested process state). All addresses are ABSOLUTE and chosen by the harness:
//! the target runs with ASLR disabled and maps everything with MAP_FIXED_NOREPLACE in a range
//! nothing else uses, so the checker knows the ground truth because it chose it.

use serde::{Deserialize, Serialize};

/// Address plan (all far away from the exe, heap, mmap area and stack of a non-ASLR process).
pub const CTL_ADDR: u64 = 0x1000_0000_0000;
pub const CTL_LEN: u64 = 0x80_0000; // 8 MiB (sparse file)
pub const SLOT_BASE: u64 = 0x1000; // per-thread slots inside the control mapping
pub const SLOT_SIZE: u64 = 64;
pub const SIGLOG_BASE: u64 = 0x10_0000; // per-thread signal logs
pub const SIGLOG_SIZE: u64 = 0x8000; // 2048 entries of 16 bytes
pub const MAX_THREADS: usize = 120;
/// harness-chosen regions live here
pub const REGION_BASE: u64 = 0x2000_0000_0000;

// slot field offsets
pub const SLOT_TID: u64 = 0;
pub const SLOT_READY: u64 = 8;
pub const SLOT_HEARTBEAT: u64 = 16;
pub const SLOT_EXIT_REQ: u64 = 24;
pub const SLOT_SIGCOUNT: u64 = 32;
pub const SLOT_ENTRY: u64 = 48;
pub const SLOT_GONE: u64 = 56;

// control header
pub const CTL_READY: u64 = 0;
pub const CTL_QUIT: u64 = 8;
pub const CTL_ACK_SIGS: u64 = 16;
/// harness -> target: map `late_regions` now; target -> harness: done
pub const CTL_MAP_LATE: u64 = 24;
pub const CTL_LATE_DONE: u64 = 32;
/// target -> harness: 1 = the thread-id counter wrapped as requested, 2 = gave up
pub const CTL_WRAPPED: u64 = 40;

pub fn slot_addr(i: usize) -> u64 {
    CTL_ADDR + SLOT_BASE + i as u64 * SLOT_SIZE
}

#[derive(Serialize, Deserialize, Clone, Debug, Default)]
pub struct Spec {
    pub dir: String,
    pub regions: Vec<Region>,
    pub threads: Vec<ThreadSpec>,
    pub fds: Vec<FdSpec>,
    /// the thread-group leader leaves with a raw exit syscall once everything is set up
    pub leader_exit: bool,
    /// name for the main thread (prctl PR_SET_NAME), raw bytes
    pub main_name: Option<Vec<u8>>,
    /// install logging handlers for these signals (heartbeat threads receive them)
    pub handle_signals: Vec<i32>,
    /// regions that are only mapped when the harness asks for it (CTL_MAP_LATE): a target whose
    /// address space changes between two requests
    #[serde(default)]
    pub late_regions: Vec<Region>,
    /// before thread number `i` is created, short-lived threads are spawned until the kernel's id
    /// counter has wrapped around: thread i then has a SMALLER id than the threads created before
    /// it (the task directory lists threads in creation order, not in id order)
    #[serde(default)]
    pub wrap_ids_before_thread: Option<usize>,
    /// the MAIN thread spends its life as the parent of vfork-style children that sleep this many
    /// milliseconds each: the thread-group leader is blocked uninterruptibly (state D) almost all
    /// the time and cannot be seen stopped until the current child is gone
    #[serde(default)]
    pub leader_vfork_ms: Option<u32>,
}

#[derive(Serialize, Deserialize, Clone, Debug)]
pub enum RegionKind {
    Anon,
    /// private file mapping of `path` at file `offset`
    File { path: String, offset: u64 },
    /// shared mapping of a file (e.g. under /dev/shm)
    SharedFile { path: String, offset: u64 },
}

#[derive(Serialize, Deserialize, Clone, Debug)]
pub enum Fill {
    Keep,
    Zero,
    /// address-derived pattern b(a) over the whole region
    Pattern,
}

#[derive(Serialize, Deserialize, Clone, Debug)]
pub struct Region {
    pub addr: u64,
    pub len: u64,
    /// final protection: r=4 w=2 x=1
    pub prot: u8,
    pub kind: RegionKind,
    pub fill: Fill,
    /// bytes written at absolute addresses after the fill (pointer slots, code stubs, fake
    /// linker structures, ...)
    pub pokes: Vec<(u64, Vec<u8>)>,
    /// delete the backing file after mapping
    pub unlink_after: bool,
}

#[derive(Serialize, Deserialize, Clone, Debug, Default)]
pub struct RegBlock {
    /// rax rbx rcx rdx rsi rdi rbp rsp r8 r9 r10 r11 r12 r13 r14 r15
    pub gpr: Vec<u64>,
    pub rflags: u64,
    pub ds: u16,
    pub es: u16,
    pub gs: u16,
    pub set_segments: bool,
    pub mxcsr: u32,
    pub fcw: u16,
    /// 16 x 16 bytes
    pub xmm: Vec<Vec<u8>>,
    /// 8 x 10 bytes, pushed in this order (so ST0 is the last one)
    pub st: Vec<Vec<u8>>,
}

pub const RAX: usize = 0;
pub const RBX: usize = 1;
pub const RCX: usize = 2;
pub const RDX: usize = 3;
pub const RSI: usize = 4;
pub const RDI: usize = 5;
pub const RBP: usize = 6;
pub const RSP: usize = 7;
pub const R8: usize = 8;
pub const R11: usize = 11;
pub const R12: usize = 12;
pub const R13: usize = 13;
pub const R14: usize = 14;
pub const R15: usize = 15;

#[derive(Serialize, Deserialize, Clone, Debug)]
pub enum ThreadKind {
    /// loads `regs`, then jumps to the code stub at `entry` (which the harness poked into an
    /// executable region). Convention: r15 = address of the slot's ready word, r14 = non-zero
    /// magic; the stub stores r14 to [r15] once everything is loaded.
    Sentinel { regs: RegBlock, entry: u64 },
    /// ordinary Rust thread: bumps its heartbeat counter and yields; receives signals
    Heartbeat,
    /// polls its exit-request word and leaves with a raw exit syscall when asked
    Exiter,
    /// ordinary Rust thread blocked in a long sleep
    Sleeper,
    /// keeps changing the descriptor table: dup2(/dev/null, 3000 + i % 256), close the previous one
    FdChurner,
    /// over and over: clone(CLONE_VFORK) a child that sleeps `ms` milliseconds and exits. While the
    /// child lives this thread is blocked uninterruptibly (state D): it cannot stop, so a tracer
    /// that attached to it waits that long for the attach stop.
    VforkWaiter { ms: u32 },
    /// gives itself a PRIVATE descriptor table (unshare(CLONE_FILES)), then closes descriptor 0 and
    /// opens /dev/full in it: `/proc/<tid>/fd` of this thread differs from `/proc/<pid>/fd`
    PrivateFdTable,
}

#[derive(Serialize, Deserialize, Clone, Debug)]
pub struct ThreadSpec {
    pub kind: ThreadKind,
    /// raw bytes for PR_SET_NAME (None: keep the inherited name)
    pub name: Option<Vec<u8>>,
}

#[derive(Serialize, Deserialize, Clone, Debug)]
pub enum FdSpec {
    File { path: String },
    DeletedFile { path: String },
    Dir { path: String },
    Pipe,
    Socket,
    EventFd,
    DevNull,
    /// a descriptor on `/proc/<child>/fd` of a child that has since died and been reaped: it is
    /// listed in the target's fd directory and its link can be read, but it cannot be stat'ed
    DeadProcDir,
}

/// What the target reports back (written to <dir>/manifest.json once everything is ready).
#[derive(Serialize, Deserialize, Clone, Debug, Default)]
pub struct Manifest {
    pub pid: i32,
    pub main_tid: i32,
    /// tids in the order of spec.threads
    pub tids: Vec<i32>,
    /// real linker chain as the target itself sees it (r_debug walk)
    pub r_debug_addr: u64,
    pub r_version: i32,
    pub r_brk: u64,
    pub r_ldbase: u64,
    pub dynamic_addr: u64,
    /// (l_addr, l_name, l_ld)
    pub link_map: Vec<(u64, String, u64)>,
    pub at_phdr: u64,
    pub at_phnum: u64,
    pub at_entry: u64,
    pub at_sysinfo_ehdr: u64,
    /// fd numbers opened for spec.fds, in order (a pipe/socket pair contributes two)
    pub fds: Vec<i32>,
    pub errors: Vec<String>,
}

// ---- code stubs (x86-64 machine code) -----------------------------------------------------

/// mov [r15], r14 ; jmp .-3   — spins forever, every register stays at its sentinel value
pub const STUB_SPIN: &[u8] = &[0x4D, 0x89, 0x37, 0xEB, 0xFB];
/// mov [r15], r14 ; L: mov eax, 34 ; syscall ; jmp L   — blocks in pause(2)
pub const STUB_PAUSE: &[u8] = &[0x4D, 0x89, 0x37, 0xB8, 0x22, 0x00, 0x00, 0x00, 0x0F, 0x05, 0xEB, 0xF7];
/// mov [r15], r14 ; L: inc r12 ; mov [rsp+8], r12 ; mov [r13], r12 ; jmp L
pub const STUB_SPINNER3: &[u8] = &[
    0x4D, 0x89, 0x37, 0x49, 0xFF, 0xC4, 0x4C, 0x89, 0x64, 0x24, 0x08, 0x4D, 0x89, 0x65, 0x00, 0xEB, 0xF2,
];
/// offset of the instruction after `syscall` inside STUB_PAUSE
pub const STUB_PAUSE_AFTER_SYSCALL: u64 = 10;
